//! Engine `capi` (C36): the C API (`/repo/rust/automerge-c`, `libautomerge_core.a`) against the Rust API.
//!
//! A case is ONE op program.  Every line is executed here, in process, through the Rust API and is
//! recorded; `capi.check` then pipes the whole recorded program to the gcc-built C driver
//! (`/verif/harness/capi/driver.c`, C API calls only) and compares the two transcripts line by line.
//!
//!   `capi.x <crdt line>`   a line of the `crdt` vocabulary: executed by `crdt::exec` on the Rust API
//!                          (the Lean driver hands the same line to the Spec/Local model, so the state
//!                          the C API must show is ALSO predicted by the model), recorded for the C driver
//!   `capi.get|getall|items|range|keys|text|len|heads|actor|pending|equal|save|detach|style …`
//!                          reads / result plumbing the crdt vocabulary has no word for (Rust mirror below)
//!   `capi.merge a b hs` `capi.clone a b actor` `capi.splicev r obj pos del vals`
//!                          state-changing C calls; the Lean driver replays their effect as crdt lines
//!   `capi.check`           run the C driver; `! C36 sig=c-vs-rust-mismatch|c-driver-crashed|valgrind`
//!   `capi.trace <events>`  the handle trace the C driver emitted for this program (result alloc /
//!                          item read / pointer borrow+use / free); the Lean handle-discipline model
//!                          (`AmVerif.Model.Handles`) replays it and must accept it
//!
//! Direct oracles: C transcript == Rust transcript; the driver exits 0; (AM_CAPI_VALGRIND=1) valgrind
//! memcheck reports no error and no leak.  Valgrind/ASan runs are SUPPORTING EVIDENCE, not proof.
use super::crdt::{self, parse_exid, parse_scalar, show_exid, show_scalar};
use super::{hx, unhx};
use crate::{exec_line, rng::Rng, Out, Session};
use automerge::{transaction::Transactable, ActorId, AutoCommit, ChangeHash, ObjId, ObjType, ReadDoc, ScalarValue, Value, ROOT};
use std::collections::BTreeMap;
use std::io::Write;
use std::process::{Command, Stdio};

#[derive(Default)]
pub struct CapiSession {
    /// the program so far, in the C driver's vocabulary
    pub program: Vec<String>,
    /// what the Rust API answered for each program line (canonical lines, `!` lines removed)
    pub expected: Vec<Vec<String>>,
    /// handle trace + tally of the last `capi.check`
    pub last_trace: Option<(String, String)>,
}

fn driver_path() -> String { std::env::var("AM_CAPI_DRIVER").unwrap_or_else(|_| "/verif/.cache/capi/driver".to_string()) }

fn ensure_driver() -> Result<String, String> {
    let p = driver_path();
    if std::path::Path::new(&p).exists() { return Ok(p); }
    let script = std::env::var("AM_CAPI_BUILD").unwrap_or_else(|_| "/verif/harness/capi/build.sh".to_string());
    let o = Command::new("sh").arg(&script).output().map_err(|e| format!("cannot run {}: {}", script, e))?;
    if !o.status.success() || !std::path::Path::new(&p).exists() {
        return Err(format!("building the C driver failed: {}", String::from_utf8_lossy(&o.stderr).lines().last().unwrap_or("")));
    }
    Ok(p)
}

// ------------------------------------------------------------------ Rust mirror of the capi.* reads

fn objtype_letter(t: ObjType) -> &'static str {
    // the C layer folds Table into Map (`AMobjType::from`)
    match t { ObjType::Map | ObjType::Table => "M", ObjType::List => "L", ObjType::Text => "T" }
}
fn show_val(v: &Value<'_>, id: &ObjId) -> String {
    match v {
        Value::Scalar(s) => format!("{}:{}", show_exid(id), show_scalar(s)),
        Value::Object(t) => format!("{}:{}", show_exid(id), objtype_letter(*t)),
    }
}
fn hashes_sorted(hs: &[ChangeHash]) -> String {
    if hs.is_empty() { return "-".into(); }
    let mut v: Vec<String> = hs.iter().map(|h| hex::encode(h.0)).collect();
    v.sort();
    v.join(",")
}
/// the C layer's position adjustment for list reads/writes (`adjust!` in doc/list.rs), re-stated from
/// its documentation: a position must be <= the last index (<= the length when inserting, and an empty
/// object can only be inserted into); SIZE_MAX means "the end"
fn adjust(pos: usize, insert: bool, len: usize) -> Option<(usize, bool)> {
    let insert = insert || len == 0;
    let end = if insert { len } else { len - 1 };
    if pos > end && pos != usize::MAX { return None; }
    Some((pos.min(end), insert))
}
enum P { Map(String), Seq(usize) }
fn parse_prop(s: &str) -> P {
    if let Some(k) = s.strip_prefix('m') { P::Map(String::from_utf8(unhx(if k.is_empty() { "-" } else { k })).unwrap()) }
    else if let Some(i) = s.strip_prefix('i') { P::Seq(i.parse().unwrap()) }
    else { panic!("prop") }
}

fn mirror(sess: &mut Session, toks: &[&str]) -> Vec<String> {
    let reps = &mut sess.crdt.replicas;
    match toks[0] {
        "capi.style" => vec!["ok".into()],
        "capi.save" => { let d = reps.get_mut(toks[1]).unwrap(); vec![hx(&d.save())] }
        "capi.heads" => { let d = reps.get_mut(toks[1]).unwrap(); vec![hashes_sorted(&d.get_heads())] }
        "capi.actor" => { let d = reps.get(toks[1]).unwrap(); vec![hex::encode(d.get_actor().to_bytes())] }
        "capi.pending" => { let d = reps.get(toks[1]).unwrap(); vec![format!("{}", d.pending_ops())] }
        "capi.equal" => {
            let a = reps.get_mut(toks[1]).unwrap().get_heads();
            let b = reps.get_mut(toks[2]).unwrap().get_heads();
            vec![format!("{}", if a == b { 1 } else { 0 })]
        }
        "capi.merge" => {
            if toks[1] == toks[2] { return vec!["err same-doc".into()]; }
            let mut src = reps.get(toks[2]).unwrap().clone();
            let d = reps.get_mut(toks[1]).unwrap();
            match d.merge(&mut src) { Ok(hs) => vec![format!("ok {}", hashes_sorted(&hs))], Err(e) => vec![format!("err {}", e)] }
        }
        "capi.clone" => {
            let c = reps.get(toks[1]).unwrap().clone().with_actor(ActorId::from(unhx(toks[3])));
            reps.insert(toks[2].to_string(), c);
            vec!["ok".into()]
        }
        "capi.len" => { let d = reps.get(toks[1]).unwrap(); vec![format!("{}", d.length(parse_exid(toks[2])))] }
        "capi.keys" => {
            let d = reps.get(toks[1]).unwrap();
            let ks: Vec<String> = d.keys(parse_exid(toks[2])).map(|k| hx(k.as_bytes())).collect();
            vec![format!("ok {}", if ks.is_empty() { "-".to_string() } else { ks.join(",") })]
        }
        "capi.text" => {
            let d = reps.get(toks[1]).unwrap();
            match d.text(parse_exid(toks[2])) { Ok(s) => vec![format!("ok s{}", hex::encode(s.as_bytes()))], Err(e) => vec![format!("err {}", e)] }
        }
        "capi.get" | "capi.detach" => {
            let d = reps.get(toks[1]).unwrap();
            let obj = parse_exid(toks[2]);
            let (r, idx) = match parse_prop(toks[3]) {
                P::Map(k) => (d.get(&obj, k.as_str()), format!("m{}", hex::encode(k.as_bytes()))),
                P::Seq(i) => match adjust(i, false, d.length(&obj)) {
                    None => return vec!["err Invalid pos".into()],
                    Some((p, _)) => (d.get(&obj, p), format!("i{}", p)),
                },
            };
            match r {
                Ok(Some((v, id))) => vec![format!("ok {} {}", idx, show_val(&v, &id))],
                Ok(None) => vec!["ok void".into()],
                Err(e) => vec![format!("err {}", e)],
            }
        }
        "capi.getall" => {
            let d = reps.get(toks[1]).unwrap();
            let obj = parse_exid(toks[2]);
            let r = match parse_prop(toks[3]) {
                P::Map(k) => d.get_all(&obj, k.as_str()),
                P::Seq(i) => match adjust(i, false, d.length(&obj)) { None => return vec!["err Invalid pos".into()], Some((p, _)) => d.get_all(&obj, p) },
            };
            match r {
                Ok(vs) => { let parts: Vec<String> = vs.iter().map(|(v, id)| show_val(v, id)).collect(); vec![format!("ok {}", if parts.is_empty() { "-".to_string() } else { parts.join("|") })] }
                Err(e) => vec![format!("err {}", e)],
            }
        }
        "capi.items" => {
            let d = reps.get(toks[1]).unwrap();
            let parts: Vec<String> = d.values(parse_exid(toks[2])).map(|(v, id)| show_val(&v, &id)).collect();
            vec![format!("ok {}", if parts.is_empty() { "-".to_string() } else { parts.join("|") })]
        }
        "capi.range" => {
            let d = reps.get(toks[1]).unwrap();
            let (b, e): (usize, usize) = (toks[3].parse().unwrap(), toks[4].parse().unwrap());
            if b > e { return vec!["err Invalid range".into()]; }
            let parts: Vec<String> = d.list_range(parse_exid(toks[2]), b..e).map(|it| { let v: Value<'static> = it.value.clone().into(); format!("i{}={}", it.index, show_val(&v, &it.id())) }).collect();
            vec![format!("ok {}", if parts.is_empty() { "-".to_string() } else { parts.join("|") })]
        }
        // capi.mrange r obj <begin hex|-> <end hex|-> <heads|->: map_range / map_range_at with open or closed bounds
        "capi.mrange" => {
            use std::ops::Bound;
            let d = reps.get(toks[1]).unwrap();
            let obj = parse_exid(toks[2]);
            let b = if toks[3] == "-" { Bound::Unbounded } else { Bound::Included(String::from_utf8(unhx(toks[3])).unwrap()) };
            let e = if toks[4] == "-" { Bound::Unbounded } else { Bound::Excluded(String::from_utf8(unhx(toks[4])).unwrap()) };
            let show = |it: automerge::iter::MapRangeItem<'_>| { let v: Value<'static> = it.value.clone().into(); format!("m{}={}", hex::encode(it.key.as_bytes()), show_val(&v, &it.id())) };
            let parts: Vec<String> = if toks[5] == "-" { d.map_range(&obj, (b, e)).map(show).collect() }
                else { let hs: Vec<ChangeHash> = toks[5].split(',').map(|h| ChangeHash::try_from(unhx(h).as_slice()).unwrap()).collect(); d.map_range_at(&obj, (b, e), &hs).map(show).collect() };
            vec![format!("ok {}", if parts.is_empty() { "-".to_string() } else { parts.join("|") })]
        }
        "capi.commit" => {
            let d = reps.get_mut(toks[1]).unwrap();
            match d.commit_with(automerge::transaction::CommitOptions::default().with_message("m").with_time(0)) {
                Some(h) => vec![format!("ok {}", hex::encode(h.0))], None => vec!["none".into()] }
        }
        "capi.emptychange" => {
            let d = reps.get_mut(toks[1]).unwrap();
            let h = d.empty_change(automerge::transaction::CommitOptions::default().with_time(0));
            vec![format!("ok {}", hex::encode(h.0))]
        }
        "capi.saveinc" => { let d = reps.get_mut(toks[1]).unwrap(); vec![hx(&d.save_incremental())] }
        "capi.loadinc" => {
            let bytes = reps.get(toks[2]).unwrap().clone().save();
            let d = reps.get_mut(toks[1]).unwrap();
            match d.load_incremental(&bytes) { Ok(n) => vec![format!("ok {}", n)], Err(e) => vec![format!("err {}", e)] }
        }
        "capi.added" => {
            if toks[1] == toks[2] { return vec!["err same-doc".into()]; }
            let mut b = reps.get(toks[2]).unwrap().clone();
            let a = reps.get_mut(toks[1]).unwrap();
            let hs: Vec<String> = a.get_changes_added(&mut b).iter().map(|c| hex::encode(c.hash().0)).collect();
            vec![format!("ok {}", if hs.is_empty() { "-".to_string() } else { hs.join(",") })]
        }
        "capi.actorcmp" => {
            let a = reps.get(toks[1]).unwrap().get_actor().clone();
            let b = reps.get(toks[2]).unwrap().get_actor().clone();
            vec![format!("{}", match a.cmp(&b) { std::cmp::Ordering::Less => -1, std::cmp::Ordering::Equal => 0, std::cmp::Ordering::Greater => 1 })]
        }
        "capi.cursor" => {
            let d = reps.get(toks[1]).unwrap();
            let obj = parse_exid(toks[2]);
            let pos: usize = toks[3].parse().unwrap();
            match d.get_cursor(&obj, pos, None) {
                Err(e) => vec![format!("err {}", e)],
                Ok(c) => {
                    let s = c.to_string();
                    let b = c.to_bytes();
                    let p = match d.get_cursor_position(&obj, &c, None) { Ok(p) => format!("{}", p), Err(e) => format!("err {}", e) };
                    let eqs = automerge::Cursor::try_from(s.as_str()).map(|x| x == c).unwrap_or(false);
                    let eqb = automerge::Cursor::try_from(b.as_slice()).map(|x| x == c).unwrap_or(false);
                    vec![format!("ok {} {} pos={} eqstr={} eqbytes={}", hex::encode(s.as_bytes()), hex::encode(&b), p, eqs as u8, eqb as u8)]
                }
            }
        }
        "capi.mark" | "capi.unmark" => {
            use automerge::marks::{ExpandMark, Mark};
            let d = reps.get_mut(toks[1]).unwrap();
            let obj = parse_exid(toks[2]);
            let (start, end): (usize, usize) = (toks[3].parse().unwrap(), toks[4].parse().unwrap());
            // AMmarkExpand: After = 3, Before = 2, Both = 4, None = 1 (0 / others: error)
            let ex = match toks[5] { "1" => ExpandMark::None, "2" => ExpandMark::Before, "3" => ExpandMark::After, "4" => ExpandMark::Both, _ => return vec!["err invalid expand".into()] };
            let name = String::from_utf8(unhx(toks[6])).unwrap();
            let r = if toks[0] == "capi.mark" { d.mark(&obj, Mark::new(name, parse_scalar(toks[7]), start, end), ex) } else { d.unmark(&obj, &name, start, end, ex) };
            match r { Ok(()) => vec!["ok".into()], Err(e) => vec![format!("err {}", e)] }
        }
        "capi.marks" => {
            let d = reps.get(toks[1]).unwrap();
            match d.marks(parse_exid(toks[2])) {
                Ok(ms) => { let parts: Vec<String> = ms.iter().map(|m| format!("{}:{}:{}:{}", hex::encode(m.name().as_bytes()), m.start, m.end, show_scalar(m.value()))).collect();
                            vec![format!("ok {}", if parts.is_empty() { "-".to_string() } else { parts.join("|") })] }
                Err(e) => vec![format!("err {}", e)],
            }
        }
        "capi.sync" => {
            use automerge::sync::{Message, State, SyncDoc};
            if toks[1] == toks[2] { return vec!["err same-doc".into()]; }
            let mut a = reps.remove(toks[1]).unwrap();
            let mut b = reps.remove(toks[2]).unwrap();
            let (mut sa, mut sb) = (State::new(), State::new());
            let mut lines = vec![];
            let mut rounds = 0;
            while rounds < 20 {
                let mut quiet = true;
                for dir in 0..2 {
                    let m = if dir == 0 { a.sync().generate_sync_message(&mut sa) } else { b.sync().generate_sync_message(&mut sb) };
                    if let Some(m) = m {
                        quiet = false;
                        let enc = m.clone().encode();
                        let haves: Vec<String> = m.have.iter().map(|h| hashes_sorted(&h.last_sync)).collect();
                        lines.push(format!("{} {} heads={} needs={} haves={}{}", if dir == 0 { "a>b" } else { "b>a" }, hex::encode(&enc),
                            hashes_sorted(&m.heads), hashes_sorted(&m.need), m.have.len(), haves.iter().map(|h| format!(":{}", h)).collect::<String>()));
                        let dm = Message::decode(&enc).expect("decode own message");
                        let r = if dir == 0 { b.sync().receive_sync_message(&mut sb, dm) } else { a.sync().receive_sync_message(&mut sa, dm) };
                        if let Err(e) = r { lines.push(format!("receive err {}", e)); }
                    }
                }
                if quiet { break; }
                rounds += 1;
            }
            let mut l = format!("rounds={}", rounds);
            for (k, s) in [("a", &sa), ("b", &sb)] {
                let opt = |o: &Option<Vec<ChangeHash>>| match o { Some(v) => format!("1:{}", hashes_sorted(v)), None => "0:-".to_string() };
                let enc = s.encode();
                l.push_str(&format!(" {}.shared={} sent={} their={} need={} haves={} enc={}{}", k, hashes_sorted(&s.shared_heads), hashes_sorted(&s.last_sent_heads),
                    opt(&s.their_heads), opt(&s.their_need), match &s.their_have { Some(v) => format!("1:{}", v.len()), None => "0:0".to_string() }, hex::encode(&enc),
                    if State::decode(&enc).is_ok() { "" } else { " decode-failed" }));
            }
            lines.push(l);
            lines.push(format!("heads {} {}", hashes_sorted(&a.get_heads()), hashes_sorted(&b.get_heads())));
            reps.insert(toks[1].to_string(), a);
            reps.insert(toks[2].to_string(), b);
            lines
        }
        "capi.splicev" => {
            let d = reps.get_mut(toks[1]).unwrap();
            let obj = parse_exid(toks[2]);
            let pos: usize = toks[3].parse().unwrap();
            let del: isize = toks[4].parse().unwrap();
            let len = d.length(&obj);
            if pos > len && pos != usize::MAX { return vec!["err Invalid pos".into()]; }
            let vals: Vec<ScalarValue> = if toks[5] == "-" { vec![] } else { toks[5].split(',').map(parse_scalar).collect() };
            match d.splice(&obj, pos.min(len), del, vals) { Ok(()) => vec!["ok".into()], Err(e) => vec![format!("err {}", e)] }
        }
        _ => vec!["unknown-cmd".into()],
    }
}

/// what the C driver prints in addition to the crdt engine's answer (every getter of a change)
fn def_extra(s: &crdt::CrdtSession, toks: &[&str]) -> Option<String> {
    let c = s.changes.get(toks[1])?;
    let deps: Vec<String> = c.deps().iter().map(|h| hex::encode(h.0)).collect();
    Some(format!("def {} {} {} {} {} raw=1 size={} maxop={} time={} empty={} msg={} extra={}",
        hex::encode(c.hash().0), hex::encode(c.actor_id().to_bytes()), c.seq(), c.start_op(),
        if deps.is_empty() { "-".to_string() } else { deps.join(",") }, c.len(), c.max_op(), c.timestamp(),
        if c.is_empty() { 1 } else { 0 }, match c.message() { Some(m) => hex::encode(m.as_bytes()), None => "none".to_string() },
        hex::encode(c.extra_bytes())))
}

// ------------------------------------------------------------------ comparison

/// error lines are compared as "an error" (+ the document summary of `crdt.apply`): the C API reports
/// `AutomergeError::to_string()` / its own "Invalid pos" texts, the crdt engine a class
fn norm(l: &str) -> String {
    if l == "err" || l.starts_with("err ") {
        match l.find(" heads=") { Some(i) => format!("err{}", &l[i..]), None => "err".to_string() }
    } else { l.to_string() }
}
fn class_of_c_message(l: &str) -> &'static str {
    if l.contains("Invalid pos") || l.contains("is out of bounds") { "index" }
    else if l.contains("invalid obj id") || l.contains("id was not an object id") { "objid" }
    else if l.contains("invalid op for object") { "invalidop" }
    else if l.contains("increment operations must be") { "missingcounter" }
    else if l.contains("duplicate seq") { "dupseq" }
    else { "other" }
}

struct DriverRun { blocks: Vec<Vec<String>>, status: String, ok: bool, stderr: String, trace: String, tally: String }

fn run_driver(path: &str, program: &[String], valgrind: bool) -> Result<DriverRun, String> {
    static CTR: std::sync::atomic::AtomicU64 = std::sync::atomic::AtomicU64::new(0);
    let n = CTR.fetch_add(1, std::sync::atomic::Ordering::SeqCst);
    let tf = format!("/tmp/capi-trace-{}-{}.txt", std::process::id(), n);
    let mut cmd = if valgrind {
        let mut c = Command::new("valgrind");
        c.args(["--error-exitcode=9", "--leak-check=full", "--errors-for-leak-kinds=definite,indirect,possible", "-q", path]);
        c
    } else { Command::new(path) };
    cmd.args(["--trace", &tf]).stdin(Stdio::piped()).stdout(Stdio::piped()).stderr(Stdio::piped()).env("RUST_BACKTRACE", "0");
    let mut child = cmd.spawn().map_err(|e| format!("cannot start {}: {}", path, e))?;
    let input = program.join("\n") + "\n";
    let mut stdin = child.stdin.take().unwrap();
    let writer = std::thread::spawn(move || { let _ = stdin.write_all(input.as_bytes()); });
    let o = child.wait_with_output().map_err(|e| e.to_string())?;
    let _ = writer.join();
    let text = String::from_utf8_lossy(&o.stdout).to_string();
    let mut blocks: Vec<Vec<String>> = vec![];
    for l in text.lines() {
        if l.starts_with("@ ") { blocks.push(vec![]); } else if let Some(b) = blocks.last_mut() { b.push(l.to_string()); }
    }
    let status = match o.status.code() { Some(c) => format!("exit={}", c), None => {
        #[cfg(unix)] { use std::os::unix::process::ExitStatusExt; format!("signal={}", o.status.signal().unwrap_or(0)) }
        #[cfg(not(unix))] { "signal".to_string() }
    } };
    let tr = std::fs::read_to_string(&tf).unwrap_or_default();
    let _ = std::fs::remove_file(&tf);
    let mut lines = tr.lines();
    let trace = lines.next().unwrap_or("").to_string();
    let tally = lines.find(|l| l.starts_with("#tally ")).map(|l| l[7..].to_string()).unwrap_or_default();
    Ok(DriverRun { blocks, status, ok: o.status.success(), stderr: String::from_utf8_lossy(&o.stderr).to_string(), trace, tally })
}

fn first_meaningful(stderr: &str) -> String {
    let l: Vec<&str> = stderr.lines().filter(|l| !l.trim().is_empty()).take(3).collect();
    l.join(" / ").chars().take(400).collect()
}

fn check(sess: &mut Session) -> Vec<String> {
    let path = match ensure_driver() { Ok(p) => p, Err(e) => return vec![format!("infra-error {}", e)] };
    let run = match run_driver(&path, &sess.capi.program, false) { Ok(r) => r, Err(e) => return vec![format!("infra-error {}", e)] };
    let mut res = vec![];
    let mut mism = 0;
    let mut class_differs = 0;
    for (i, exp) in sess.capi.expected.iter().enumerate() {
        let got: Vec<String> = run.blocks.get(i).cloned().unwrap_or_else(|| vec!["<no output>".into()]);
        let (e2, g2): (Vec<String>, Vec<String>) = (exp.iter().map(|l| norm(l)).collect(), got.iter().map(|l| norm(l)).collect());
        if e2 != g2 {
            mism += 1;
            if mism <= 3 {
                let k = (0..e2.len().max(g2.len())).find(|k| e2.get(*k) != g2.get(*k)).unwrap_or(0);
                let cut = |s: Option<&String>| -> String { s.map(|x| x.chars().take(300).collect()).unwrap_or_else(|| "<missing>".into()) };
                // two recurring differences have their own signature (see the findings of C36)
                let cmd = sess.capi.program[i].split(' ').next().unwrap_or("");
                let gk = got.get(k).map(|s| s.as_str()).unwrap_or("");
                let ek = exp.get(k).map(|s| s.as_str()).unwrap_or("");
                let sig = if cmd == "crdt.state_at" && gk.contains("!err Invalid pos") { "c-historical-list-read-checks-current-length" }
                    else if cmd == "crdt.splice" && gk.starts_with("err Invalid pos") && ek == "ok" && sess.capi.program[i].ends_with(" 0 -") { "c-rejects-noop-splice-past-end" }
                    else if gk.contains("!AMitemEqual(item,item)=false") || gk.contains("!AMitemsEqual(") { "c-item-not-equal-to-itself" }
                    else { "c-vs-rust-mismatch" };
                res.push(format!("! C36 sig={} line {} `{}`: C API gives `{}` but the Rust API gives `{}`",
                    sig, i + 1, sess.capi.program[i].chars().take(160).collect::<String>(), cut(got.get(k)), cut(exp.get(k))));
            }
        } else if exp.first().map(|l| l.starts_with("err ")).unwrap_or(false) {
            // informational: error classes (not part of the property: messages are not values)
            let rc = exp[0].split(' ').nth(1).unwrap_or("");
            let same_vocab = ["index", "objid", "invalidop", "missingcounter", "dupseq", "other"].contains(&rc);
            if same_vocab && class_of_c_message(&got[0]) != rc { class_differs += 1; }
        }
    }
    if !run.ok {
        let last = run.blocks.len();
        res.push(format!("! C36 sig=c-driver-crashed {} after {} of {} lines; next line `{}`; stderr: {}", run.status, last, sess.capi.program.len(),
            sess.capi.program.get(last).map(|s| s.chars().take(160).collect::<String>()).unwrap_or_default(), first_meaningful(&run.stderr)));
    }
    if std::env::var("AM_CAPI_VALGRIND").map(|v| v == "1").unwrap_or(false) {
        // memcheck on the driver without DWARF (5x faster start-up); a failure is re-run with symbols
        let nodbg = format!("{}-nodbg", path);
        let vg_path = if std::path::Path::new(&nodbg).exists() { nodbg } else { path.clone() };
        let first = run_driver(&vg_path, &sess.capi.program, true);
        let first = match first { Ok(v) if (!v.ok || !v.stderr.trim().is_empty()) && vg_path != path => run_driver(&path, &sess.capi.program, true), other => other };
        match first {
            Ok(v) => if !v.ok || !v.stderr.trim().is_empty() {
                res.push(format!("! C36 sig=valgrind {} memcheck reported: {}", v.status, first_meaningful(&v.stderr)));
            } else { res.insert(0, "valgrind-clean".to_string()); },
            Err(e) => res.push(format!("infra-error valgrind {}", e)),
        }
    }
    sess.capi.last_trace = Some((run.trace.clone(), run.tally.clone()));
    let head = format!("{} lines={} mismatches={} errclass_differs={}", if mism == 0 && run.ok { "ok" } else { "differs" }, sess.capi.program.len(), mism, class_differs);
    // `valgrind-clean` (if any) stays first only in thorough mode; the summary line is what both tiers share
    let pos = if res.first().map(|l| l == "valgrind-clean").unwrap_or(false) { 1 } else { 0 };
    res.insert(pos, head);
    res
}

pub fn exec(sess: &mut Session, toks: &[&str]) -> Vec<String> {
    match toks[0] {
        "capi.x" => {
            let inner = &toks[1..];
            sess.capi.program.push(inner.join(" "));
            sess.capi.expected.push(vec!["panic".into()]);
            let out = crdt::exec(&mut sess.crdt, inner);
            let mut exp: Vec<String> = out.iter().filter(|l| !l.starts_with("! ") && !l.starts_with('#')).cloned().collect();
            if inner[0] == "crdt.def" && exp.first().map(|l| l == "ok").unwrap_or(false) {
                if let Some(x) = def_extra(&sess.crdt, inner) { exp.push(x); }
            }
            *sess.capi.expected.last_mut().unwrap() = exp;
            out
        }
        "capi.check" => check(sess),
        "capi.trace" => {
            match &sess.capi.last_trace {
                Some((tr, tally)) if toks.len() == 2 && (tr == toks[1] || (tr.is_empty() && toks[1] == "-")) => vec![format!("ok {}", tally)],
                Some(_) => vec!["trace-differs-from-the-driver-run".into()],
                None => vec!["no-check-before-trace".into()],
            }
        }
        _ => {
            sess.capi.program.push(toks.join(" "));
            sess.capi.expected.push(vec!["panic".into()]);
            let out = mirror(sess, toks);
            *sess.capi.expected.last_mut().unwrap() = out.clone();
            out
        }
    }
}

// ------------------------------------------------------------------ generator

const KEYS: [&str; 6] = ["a", "b", "k", "é", "list", "t"];

fn rand_scalar(r: &mut Rng) -> String {
    match r.below(10) {
        0 => "n".into(),
        1 => format!("b{}", r.below(2)),
        2 => format!("i{}", (r.below(7) as i64) - 3),
        3 => format!("u{}", r.below(5)),
        4 => format!("f{}", (r.below(4) as f64 * 0.5).to_bits()),
        5 | 6 => format!("s{}", hex::encode(["x", "y", "hello", "é", "🙂"][r.below(5) as usize].as_bytes())),
        7 => { let k = r.below(3) as usize; format!("x{}", hex::encode(r.bytes(k))) }
        8 => format!("c{}", r.below(10)),
        _ => format!("t{}", r.below(1000)),
    }
}

fn x(sess: &mut Session, out: &mut Out, line: &str) -> Vec<String> { exec_line(sess, &format!("capi.x {}", line), out) }

fn collect_objs(d: &AutoCommit, obj: &ObjId, ty: ObjType, out: &mut Vec<(String, ObjType)>, depth: usize) {
    if depth > 6 { return; }
    match ty {
        ObjType::Map | ObjType::Table => {
            for k in d.keys(obj).collect::<Vec<_>>() {
                if let Ok(vals) = d.get_all(obj, k.as_str()) {
                    for (v, id) in vals { if let Value::Object(t) = v { out.push((show_exid(&id), t)); collect_objs(d, &id, t, out, depth + 1); } }
                }
            }
        }
        ObjType::List => {
            for i in 0..d.length(obj) {
                if let Ok(vals) = d.get_all(obj, i) {
                    for (v, id) in vals { if let Value::Object(t) = v { out.push((show_exid(&id), t)); collect_objs(d, &id, t, out, depth + 1); } }
                }
            }
        }
        ObjType::Text => {}
    }
}

/// one local transaction (same distribution as `crdt::local_tx`), plus C-only reads in the middle
fn local_tx(r: &mut Rng, sess: &mut Session, out: &mut Out, who: &str, known_objs: &mut Vec<(String, ObjType)>, all_changes: &mut Vec<String>) {
    let who = who.to_string();
    let nedits = r.range(1, 4);
    for _ in 0..nedits {
        let d = sess.crdt.replicas.get_mut(&who).unwrap();
        let mut objs: Vec<(String, ObjType)> = vec![("_".into(), ObjType::Map)];
        collect_objs(d, &ROOT, ObjType::Map, &mut objs, 0);
        if r.chance(1, 12) && !known_objs.is_empty() {
            objs.push(known_objs[r.below(known_objs.len() as u64) as usize].clone());
        }
        let (obj, ty) = objs[r.below(objs.len() as u64) as usize].clone();
        let d = sess.crdt.replicas.get_mut(&who).unwrap();
        let len = d.length(parse_exid(&obj)) as u64;
        let line = match ty {
            ObjType::Map | ObjType::Table => {
                let mut k = format!("m{}", hex::encode(KEYS[r.below(KEYS.len() as u64) as usize].as_bytes()));
                let oid = parse_exid(&obj);
                let counters: Vec<String> = d.keys(&oid).filter(|key| matches!(d.get(&oid, key.as_str()), Ok(Some((Value::Scalar(v), _))) if matches!(v.as_ref(), ScalarValue::Counter(_)))).collect();
                let mut same_val: Option<String> = None;
                if r.chance(1, 5) { if let Ok(Some((Value::Scalar(v), _))) = d.get(&oid, &String::from_utf8(hex::decode(&k[1..]).unwrap()).unwrap()) { same_val = Some(show_scalar(v.as_ref())); } }
                match r.below(10) {
                    0 | 1 => format!("crdt.putobj {} {} {} {}", who, obj, k, ["M", "L", "T"][r.below(3) as usize]),
                    2 => format!("crdt.del {} {} {}", who, obj, k),
                    3 | 4 => { if !counters.is_empty() && r.chance(4, 5) { k = format!("m{}", hex::encode(counters[r.below(counters.len() as u64) as usize].as_bytes())); }
                               format!("crdt.inc {} {} {} {}", who, obj, k, r.below(5) as i64 - 1) }
                    _ => { let v = match same_val { Some(v) => v, None => rand_scalar(r) }; format!("crdt.put {} {} {} {}", who, obj, k, v) }
                }
            }
            ObjType::List => {
                let idx = if r.chance(1, 15) { len + 1 + r.below(3) } else { r.below(len + 1) };
                match r.below(12) {
                    0 => format!("crdt.insobj {} {} {} {}", who, obj, idx.min(len), ["M", "L", "T"][r.below(3) as usize]),
                    1 | 2 if len > 0 => format!("crdt.del {} {} i{}", who, obj, r.below(len)),
                    3 if len > 0 => format!("crdt.inc {} {} i{} {}", who, obj, r.below(len), r.below(5) as i64 - 1),
                    4 | 5 if len > 0 => format!("crdt.put {} {} i{} {}", who, obj, r.below(len), rand_scalar(r)),
                    6 if len > 0 => format!("crdt.putobj {} {} i{} {}", who, obj, r.below(len), ["M", "L", "T"][r.below(3) as usize]),
                    7 => {
                        // AMsplice with values built from AMitemFrom* + AMresultCat (never zero values: see the findings)
                        let n = r.range(1, 3);
                        let vals: Vec<String> = (0..n).map(|_| rand_scalar(r)).collect();
                        let pos = r.below(len + 1);
                        let del = if len > pos { r.below((len - pos).min(2) + 1) } else { 0 };
                        out.count("edit_capi.splicev");
                        let l = format!("capi.splicev {} {} {} {} {}", who, obj, pos, del, vals.join(","));
                        let res = exec_line(sess, &l, out);
                        if res.get(0).map(|s| s.starts_with("err")).unwrap_or(false) { out.count("edit_errors"); }
                        continue;
                    }
                    _ => format!("crdt.ins {} {} {} {}", who, obj, idx, rand_scalar(r)),
                }
            }
            ObjType::Text => {
                let pos = if r.chance(1, 15) { len + 1 } else { r.below(len + 1) };
                let del = if len > pos && r.chance(1, 3) { r.range(1, (len - pos).min(3)) } else { 0 };
                let txt = ["a", "bc", "é", "🙂", "xyz", "", "e\u{301}"][r.below(7) as usize];
                format!("crdt.splice {} {} {} {} {}", who, obj, pos, del, hx(txt.as_bytes()))
            }
        };
        let res = x(sess, out, &line);
        out.count(&format!("edit_{}", line.split(' ').next().unwrap()));
        if res.get(0).map(|s| s.starts_with("err")).unwrap_or(false) { out.count("edit_errors"); }
        if r.chance(1, 4) { reads(r, sess, out, &who, known_objs); }
    }
    if r.chance(1, 12) {
        x(sess, out, &format!("crdt.rollback {}", who));
        x(sess, out, &format!("crdt.state {}", who));
        out.count("rollbacks");
        return;
    }
    let res = x(sess, out, &format!("crdt.commit {}", who));
    if res[0] == "ok" {
        let d = sess.crdt.replicas.get_mut(&who).unwrap();
        let c = d.get_last_local_change().unwrap();
        let h = hex::encode(c.hash().0);
        x(sess, out, &crdt::def_line(&c));
        x(sess, out, &format!("crdt.local {} {}", who, h));
        all_changes.push(h);
        let d = sess.crdt.replicas.get_mut(&who).unwrap();
        let mut objs = vec![];
        collect_objs(d, &ROOT, ObjType::Map, &mut objs, 0);
        for o in objs { if !known_objs.contains(&o) { known_objs.push(o); } }
    }
}

/// a few reads through the C API's read calls (valid and invalid arguments), any transaction state
fn reads(r: &mut Rng, sess: &mut Session, out: &mut Out, who: &str, known_objs: &[(String, ObjType)]) {
    let d = sess.crdt.replicas.get_mut(who).unwrap();
    let mut objs: Vec<(String, ObjType)> = vec![("_".into(), ObjType::Map)];
    collect_objs(d, &ROOT, ObjType::Map, &mut objs, 0);
    if r.chance(1, 10) && !known_objs.is_empty() { objs.push(known_objs[r.below(known_objs.len() as u64) as usize].clone()); }
    if r.chance(1, 3) { exec_line(sess, &format!("capi.style {}", r.below(5)), out); }
    for _ in 0..r.range(1, 3) {
        let (obj, ty) = objs[r.below(objs.len() as u64) as usize].clone();
        let d = sess.crdt.replicas.get(who).unwrap();
        let len = d.length(parse_exid(&obj)) as u64;
        let prop = match ty {
            ObjType::Map | ObjType::Table => format!("m{}", hex::encode(KEYS[r.below(KEYS.len() as u64) as usize].as_bytes())),
            _ => format!("i{}", if r.chance(1, 10) { len + r.below(3) } else { r.below(len.max(1)) }),
        };
        // 1 in 12: a prop of the wrong kind for the object (invalid call)
        let prop = if r.chance(1, 12) { if prop.starts_with('m') { "i0".to_string() } else { "m61".to_string() } } else { prop };
        // map ranges: every combination of open / closed bounds, at the current heads or at a past change
        if matches!(ty, ObjType::Map | ObjType::Table) && r.chance(1, 4) {
            let mut ks: Vec<String> = d.keys(parse_exid(&obj)).collect();
            ks.push("m".into()); ks.push("".into()); ks.sort();
            let (i, j) = (r.below(ks.len() as u64) as usize, r.below(ks.len() as u64) as usize);
            let (lo, hi) = (i.min(j), i.max(j));
            let b = if r.chance(1, 2) { "-".to_string() } else if ks[lo].is_empty() { "-".to_string() } else { hex::encode(ks[lo].as_bytes()) };
            let e = if r.chance(1, 2) { "-".to_string() } else if ks[hi].is_empty() { "-".to_string() } else { hex::encode(ks[hi].as_bytes()) };
            let mut dd = d.clone();
            let hist: Vec<String> = if dd.pending_ops() == 0 { dd.get_changes(&[]).iter().map(|c| hex::encode(c.hash().0)).collect() } else { vec![] };
            let hs = if hist.is_empty() || r.chance(1, 2) { "-".to_string() } else { hist[r.below(hist.len() as u64) as usize].clone() };
            out.count(&format!("read_capi.mrange_{}{}{}", if b == "-" { "o" } else { "c" }, if e == "-" { "o" } else { "c" }, if hs == "-" { "" } else { "_at" }));
            exec_line(sess, &format!("capi.mrange {} {} {} {} {}", who, obj, b, e, hs), out);
            continue;
        }
        let line = match r.below(11) {
            10 => format!("capi.cursor {} {} {}", who, obj, if r.chance(1, 8) { len + 1 } else { r.below(len.max(1)) }),
            0 | 1 => format!("capi.get {} {} {}", who, obj, prop),
            2 => format!("capi.detach {} {} {}", who, obj, prop),
            3 | 4 => format!("capi.getall {} {} {}", who, obj, prop),
            5 => format!("capi.items {} {}", who, obj),
            6 => { let b = r.below(len + 2); let e = r.below(len + 3); format!("capi.range {} {} {} {}", who, obj, b, e) }
            7 => format!("capi.keys {} {}", who, obj),
            8 => format!("capi.text {} {}", who, obj),
            _ => format!("capi.len {} {}", who, obj),
        };
        out.count(&format!("read_{}", line.split(' ').next().unwrap()));
        let res = exec_line(sess, &line, out);
        if res.get(0).map(|s| s.starts_with("err")).unwrap_or(false) { out.count("read_errors"); }
    }
}

fn observe(sess: &mut Session, out: &mut Out, names: &[String]) {
    for n in names { x(sess, out, &format!("crdt.state {}", n)); }
}

pub fn generate(r: &mut Rng, opts: &BTreeMap<String, String>, sess: &mut Session, out: &mut Out) {
    // thorough tier: `--valgrind 1` (same as env AM_CAPI_VALGRIND=1; a replay needs the env variable)
    if opts.get("valgrind").map(|v| v == "1").unwrap_or(false) { std::env::set_var("AM_CAPI_VALGRIND", "1"); }
    // automerge-c is built without an encoding feature: AMcreate() uses the platform default (code points)
    let enc = "cp";
    let nrep = r.range(2, 3) as usize;
    let mut actors: Vec<Vec<u8>> = (0..8).map(|i| vec![0x10 * (8 - i as u8) + r.below(8) as u8, r.next() as u8]).collect();
    if r.chance(1, 2) { actors.reverse(); }
    let mut names: Vec<String> = vec![];
    x(sess, out, &format!("crdt.new r0 {} {}", enc, hex::encode(&actors[0])));
    names.push("r0".into());
    let mut next_actor = 1;
    let mut known_objs: Vec<(String, ObjType)> = vec![("_".into(), ObjType::Map)];
    let mut all_changes: Vec<String> = vec![];
    let steps = r.range(6, 22);
    for _ in 0..steps {
        let who = names[r.below(names.len() as u64) as usize].clone();
        match r.below(12) {
            0 if names.len() < nrep => {
                let n = format!("r{}", names.len());
                let parent_actor = sess.crdt.replicas.get(&who).unwrap().get_actor().to_bytes().to_vec();
                if r.chance(1, 4) {
                    // AMclone keeps the actor id unless told otherwise; 1 in 2 keeps it (conflicting (actor, seq) pairs)
                    let a = if r.chance(1, 2) { parent_actor } else { next_actor += 1; actors[next_actor - 1].clone() };
                    exec_line(sess, &format!("capi.clone {} {} {}", who, n, hex::encode(&a)), out);
                    out.count("clone");
                } else {
                    let a = if r.chance(1, 6) { out.count("fork_same_actor"); parent_actor } else { next_actor += 1; actors[next_actor - 1].clone() };
                    x(sess, out, &format!("crdt.fork {} {} {}", who, n, hex::encode(&a)));
                }
                names.push(n);
            }
            1 | 2 if !all_changes.is_empty() => {
                let k = r.range(1, 4.min(all_changes.len() as u64)) as usize;
                let mut pick: Vec<String> = (0..k).map(|_| all_changes[r.below(all_changes.len() as u64) as usize].clone()).collect();
                if r.chance(1, 3) { pick.reverse(); }
                x(sess, out, &format!("crdt.apply {} {}", who, pick.join(",")));
                out.count("deliver_subset");
            }
            3 if !all_changes.is_empty() => {
                let mut all = all_changes.clone();
                for i in (1..all.len()).rev() { let j = r.below(i as u64 + 1) as usize; all.swap(i, j); }
                x(sess, out, &format!("crdt.apply {} {}", who, all.join(",")));
                out.count("deliver_all_shuffled");
            }
            4 if names.len() > 1 => {
                // AMmerge (both sides have no open transaction here: local_tx always commits or rolls back)
                let other = names[r.below(names.len() as u64) as usize].clone();
                if other != who {
                    let all = |sess: &mut Session, n: &str| -> String {
                        let hs: Vec<String> = sess.crdt.replicas.get_mut(n).unwrap().get_changes(&[]).iter().map(|c| hex::encode(c.hash().0)).collect();
                        if hs.is_empty() { "-".to_string() } else { hs.join(",") }
                    };
                    let (ha, hb) = (all(sess, &who), all(sess, &other));
                    match r.below(4) {
                        0 => { exec_line(sess, &format!("capi.loadinc {} {} {}", who, other, hb), out); out.count("loadinc"); }
                        1 => { exec_line(sess, &format!("capi.sync {} {} {} {}", who, other, ha, hb), out); out.count("sync"); }
                        _ => { exec_line(sess, &format!("capi.merge {} {} {}", who, other, hb), out); out.count("merge"); }
                    }
                }
            }
            5 => {
                exec_line(sess, &format!("capi.save {}", who), out);
                exec_line(sess, &format!("capi.heads {}", who), out);
                if r.chance(1, 2) { exec_line(sess, &format!("capi.actor {}", who), out); }
                if names.len() > 1 && r.chance(1, 2) { let o = names[r.below(names.len() as u64) as usize].clone(); exec_line(sess, &format!("capi.equal {} {}", who, o), out); }
                if r.chance(1, 2) { exec_line(sess, &format!("capi.saveinc {}", who), out); }
                if names.len() > 1 {
                    let o = names[r.below(names.len() as u64) as usize].clone();
                    if r.chance(1, 2) { exec_line(sess, &format!("capi.added {} {}", who, o), out); }
                    if r.chance(1, 3) { exec_line(sess, &format!("capi.actorcmp {} {}", who, o), out); }
                }
                out.count("save_heads");
            }
            _ => local_tx(r, sess, out, &who, &mut known_objs, &mut all_changes),
        }
        if r.chance(1, 3) { observe(sess, out, &names); }
        if r.chance(1, 4) { reads(r, sess, out, &who, &known_objs); }
    }
    // convergence: everybody gets everything
    for n in names.clone() {
        let mut all = all_changes.clone();
        for i in (1..all.len()).rev() { let j = r.below(i as u64 + 1) as usize; all.swap(i, j); }
        if !all.is_empty() { x(sess, out, &format!("crdt.apply {} {}", n, all.join(","))); }
    }
    observe(sess, out, &names);
    if !all_changes.is_empty() {
        let h = all_changes[r.below(all_changes.len() as u64) as usize].clone();
        x(sess, out, "crdt.changes r0 -");
        x(sess, out, &format!("crdt.changes r0 {}", h));
        let who = names[r.below(names.len() as u64) as usize].clone();
        x(sess, out, &format!("crdt.saveload {} l {}", who, r.below(2)));
        x(sess, out, "crdt.state l");
        exec_line(sess, "capi.save l", out);
    }
    // historical reads (heads passed to the C API as an AMitems of AMitemFromChangeHash results)
    let own: Vec<String> = sess.crdt.replicas.get_mut("r0").unwrap().get_changes(&[]).iter().map(|c| hex::encode(c.hash().0)).collect();
    if !own.is_empty() {
        for k in 0..3 {
            // one of the three from the older half of the history (objects may have shrunk since)
            let h = if k == 0 { own[r.below(own.len() as u64 / 2 + 1) as usize].clone() } else { own[r.below(own.len() as u64) as usize].clone() };
            x(sess, out, &format!("crdt.state_at r0 {}", h));
            out.count("state_at");
        }
    }
    // a scratch replica `z` for the calls the Lean crdt model has no word for (marks, empty changes,
    // commit messages): nothing below is read back through a `capi.x` line
    {
        let a = vec![0x99u8, r.next() as u8];
        exec_line(sess, &format!("capi.clone r0 z {}", hex::encode(&a)), out);
        let d = sess.crdt.replicas.get("z").unwrap();
        let mut objs: Vec<(String, ObjType)> = vec![];
        collect_objs(d, &ROOT, ObjType::Map, &mut objs, 0);
        let mut texts: Vec<(String, u64)> = objs.iter().filter(|o| o.1 == ObjType::Text).map(|o| (o.0.clone(), d.length(parse_exid(&o.0)) as u64)).filter(|o| o.1 > 0).collect();
        if texts.is_empty() {
            let res = exec_line(sess, "capi.x crdt.putobj z _ m7a7a T", out);
            if let Some(id) = res.get(0).and_then(|l| l.strip_prefix("ok ")) {
                let id = id.to_string();
                exec_line(sess, &format!("capi.x crdt.splice z {} 0 0 {}", id, hex::encode("héllo wörld".as_bytes())), out);
                texts.push((id, 11));
            }
        }
        for _ in 0..r.range(1, 3) {
            if texts.is_empty() { break; }
            let (obj, len) = texts[r.below(texts.len() as u64) as usize].clone();
            let start = r.below(len);
            let end = start + r.below(len - start + 1);
            let name = ["bold", "link", "é"][r.below(3) as usize];
            if r.chance(1, 5) {
                exec_line(sess, &format!("capi.unmark z {} {} {} {} {}", obj, start, end, 1 + r.below(4), hex::encode(name.as_bytes())), out);
            } else {
                // 1 in 10: expand = 0 (AM_MARK_EXPAND_DEFAULT is not a valid expand: the C layer reports an error)
                let ex = if r.chance(1, 10) { 0 } else { 1 + r.below(4) };
                exec_line(sess, &format!("capi.mark z {} {} {} {} {} {}", obj, start, end, ex, hex::encode(name.as_bytes()), rand_scalar(r)), out);
            }
            exec_line(sess, &format!("capi.marks z {}", obj), out);
            out.count("marks");
        }
        exec_line(sess, "capi.commit z", out);
        if r.chance(1, 2) { exec_line(sess, "capi.emptychange z", out); }
        for (obj, _) in &texts { exec_line(sess, &format!("capi.marks z {}", obj), out); exec_line(sess, &format!("capi.text z {}", obj), out); }
        exec_line(sess, "capi.save z", out);
        exec_line(sess, "capi.heads z", out);
    }
    let res = exec_line(sess, "capi.check", out);
    if res.iter().any(|l| l.starts_with("! C36 sig=c-") && !l.starts_with("! C36 sig=c-driver")) { out.count("cases_with_mismatch"); }
    if res.iter().any(|l| l.starts_with("! C36 sig=valgrind")) { out.count("cases_with_valgrind_report"); }
    if res.iter().any(|l| l == "valgrind-clean") { out.count("cases_valgrind_clean"); }
    if res.iter().any(|l| l.starts_with("! C36 sig=c-driver-crashed")) { out.count("cases_with_crash"); }
    out.add("program_lines", sess.capi.program.len() as u64);
    if let Some((tr, _)) = sess.capi.last_trace.clone() {
        out.add("trace_events", tr.split(',').count() as u64);
        exec_line(sess, &format!("capi.trace {}", if tr.is_empty() { "-".to_string() } else { tr }), out);
    }
}
