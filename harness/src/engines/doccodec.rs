//! Extension of the `crdt` engine: commands `crdt.dc.*` (document chunk codec, M6) on the replicas of `CrdtSession`.
//!
//! `crdt.dc.save r`      — the UNCOMPRESSED document chunk `save` writes for replica r, split into actor
//!                         table, heads, every change column, every op column and the head-index suffix
//!                         (one line each); the model prints the same from its own applied changes
//!                         (`imageOf` → `encodeDoc`).
//! `crdt.dc.load <hex>`  — `load` of the given bytes (one document chunk: real saves, column mutants with
//!                         recomputed checksum, truncated columns, swapped specs, compressed saves): the
//!                         error class, or heads / op rows / reconstructed changes.
//! `crdt.dc.commit r t m`— commit with a time and a message (the `time` and `message` columns).
//! Direct oracles (implementation alone): C11 — the saved bytes load, to the same heads, change bytes and
//! op rows; C16 — a chunk that loads has every op row inside one of its changes and every successor id
//! is a row or a delete of a change, and get_changes / save work on it.
use super::crdt::{def_line, local_tx, parse_exid, CrdtSession};
use super::{hx, unhx};
use crate::{exec_line, rng::Rng, Out, Session};
use automerge::{transaction::Transactable, AutoCommit, Change, ChangeHash, ObjType, ReadDoc, TextEncoding};
use sha2::Digest;
use std::collections::{BTreeMap, BTreeSet};
use std::panic::{catch_unwind, AssertUnwindSafe};

// ------------------------------------------------------------------ an independent reader of the chunk layout

#[derive(Clone, Debug, Default)]
pub struct Pieces {
    pub header_len: usize,
    pub actors: Vec<u8>,
    pub heads: Vec<u8>,
    pub change_cols: Vec<(u32, Vec<u8>)>,
    pub op_cols: Vec<(u32, Vec<u8>)>,
    pub suffix: Vec<u8>,
}

fn uleb(b: &[u8], pos: &mut usize) -> Option<u64> {
    let mut rd = &b[*pos..];
    let before = rd.len();
    let v = leb128::read::unsigned(&mut rd).ok()?;
    *pos += before - rd.len();
    Some(v)
}

/// split the first chunk of `data` (a document chunk) into its pieces; `None` if it is not laid out like one
pub fn split_doc(data: &[u8]) -> Option<Pieces> {
    if data.len() < 9 || data[8] != 0 { return None; }
    let mut pos = 9;
    let len = uleb(data, &mut pos)? as usize;
    let header_len = pos;
    if data.len() < pos + len { return None; }
    let body = &data[pos..pos + len];
    let mut p = 0usize;
    let n = uleb(body, &mut p)?;
    for _ in 0..n { let l = uleb(body, &mut p)? as usize; p = p.checked_add(l)?; if p > body.len() { return None; } }
    let actors = body[..p].to_vec();
    let hs = p;
    let nh = uleb(body, &mut p)? as usize;
    p = p.checked_add(nh.checked_mul(32)?)?;
    if p > body.len() { return None; }
    let heads = body[hs..p].to_vec();
    let mut metas: Vec<Vec<(u32, usize)>> = vec![];
    for _ in 0..2 {
        let nc = uleb(body, &mut p)?;
        let mut m = vec![];
        for _ in 0..nc { let s = uleb(body, &mut p)? as u32; let l = uleb(body, &mut p)? as usize; m.push((s, l)); }
        metas.push(m);
    }
    let mut cols: Vec<Vec<(u32, Vec<u8>)>> = vec![];
    for m in &metas {
        let mut v = vec![];
        for (s, l) in m { let e = p.checked_add(*l)?; if e > body.len() { return None; } v.push((*s, body[p..e].to_vec())); p = e; }
        cols.push(v);
    }
    Some(Pieces { header_len, actors, heads, change_cols: cols[0].clone(), op_cols: cols[1].clone(), suffix: body[p..].to_vec() })
}

fn put_uleb(out: &mut Vec<u8>, v: u64) { leb128::write::unsigned(out, v).unwrap(); }

/// a document chunk (valid checksum) from pieces
pub fn join_doc(p: &Pieces) -> Vec<u8> {
    let mut body = vec![];
    body.extend(&p.actors);
    body.extend(&p.heads);
    for cols in [&p.change_cols, &p.op_cols] {
        put_uleb(&mut body, cols.len() as u64);
        for (s, d) in cols.iter() { put_uleb(&mut body, *s as u64); put_uleb(&mut body, d.len() as u64); }
    }
    for cols in [&p.change_cols, &p.op_cols] { for (_, d) in cols.iter() { body.extend(d); } }
    body.extend(&p.suffix);
    frame(0, &body)
}

pub fn frame(ty: u8, body: &[u8]) -> Vec<u8> {
    let mut hashed = vec![ty];
    put_uleb(&mut hashed, body.len() as u64);
    hashed.extend(body);
    let h = sha2::Sha256::digest(&hashed);
    let mut out = vec![0x85, 0x6f, 0x4a, 0x83];
    out.extend(&h[..4]);
    out.extend(&hashed);
    out
}


// ------------------------------------------------------------------ structured (value-level) column mutations

/// decode a column to values, change one value, re-encode canonically; `None` if it does not decode
fn mutate_values(r: &mut Rng, spec: u32, is_ops: bool, data: &[u8]) -> Option<Vec<u8>> {
    let ty = spec & 7;
    let nullable = is_ops && matches!(spec, 0x01 | 0x02 | 0x11 | 0x13 | 0x15);
    let tweak = |r: &mut Rng, v: i64, prev: Option<i64>| -> i64 {
        match r.below(6) { 0 => v + 1, 1 => (v - 1).max(0), 2 => prev.unwrap_or(v), 3 => v + r.range(2, 40) as i64, 4 => 0, _ => (v + (1 << 31)) & 0xffff_ffff }
    };
    match ty {
        3 => { // delta
            if nullable {
                let col = hexane::DeltaColumn::<Option<i64>>::load(data).ok()?;
                let mut v: Vec<Option<i64>> = col.iter().collect();
                if v.is_empty() { return None; }
                let i = r.below(v.len() as u64) as usize;
                let prev = if i > 0 { v[i - 1] } else { None };
                v[i] = match v[i] { Some(x) => if r.chance(1, 6) { None } else { Some(tweak(r, x, prev)) }, None => Some(r.below(4) as i64) };
                Some(hexane::DeltaColumn::<Option<i64>>::from_values(v).save())
            } else {
                let col = hexane::DeltaColumn::<i64>::load(data).ok()?;
                let mut v: Vec<i64> = col.iter().collect();
                if v.is_empty() { return None; }
                let i = r.below(v.len() as u64) as usize;
                let prev = if i > 0 { Some(v[i - 1]) } else { None };
                v[i] = tweak(r, v[i], prev);
                if r.chance(1, 8) { let x = v[i]; v.insert(i, x); }
                Some(hexane::DeltaColumn::<i64>::from_values(v).save())
            }
        }
        0 | 1 | 2 => { // group count / actor / integer
            if nullable {
                let col = hexane::Column::<Option<u64>>::load(data).ok()?;
                let mut v: Vec<Option<u64>> = col.iter().collect();
                if v.is_empty() { return None; }
                let i = r.below(v.len() as u64) as usize;
                let prev = if i > 0 { v[i - 1].map(|x| x as i64) } else { None };
                v[i] = match v[i] { Some(x) => if r.chance(1, 6) { None } else { Some(tweak(r, x as i64, prev) as u64) }, None => Some(r.below(4)) };
                Some(hexane::Column::<Option<u64>>::from_values(v).save())
            } else {
                let col = hexane::Column::<u64>::load(data).ok()?;
                let mut v: Vec<u64> = col.iter().collect();
                if v.is_empty() { return None; }
                let i = r.below(v.len() as u64) as usize;
                let prev = if i > 0 { Some(v[i - 1] as i64) } else { None };
                v[i] = tweak(r, v[i] as i64, prev) as u64;
                Some(hexane::Column::<u64>::from_values(v).save())
            }
        }
        4 => { // boolean
            let col = hexane::Column::<bool>::load(data).ok()?;
            let mut v: Vec<bool> = col.iter().collect();
            if v.is_empty() { return None; }
            let i = r.below(v.len() as u64) as usize;
            v[i] = !v[i];
            Some(hexane::Column::<bool>::from_values(v).save())
        }
        _ => None,
    }
}

// ------------------------------------------------------------------ canonical text

fn rows_text(d: &automerge::Automerge) -> String {
    let rows = d.verif_dump_ops();
    if rows.is_empty() { return "-".into(); }
    rows.iter().map(|(id, obj, key, insert, succ, _vis, _top, _width)| {
        let key = match key.strip_prefix('m') { Some(k) => format!("m{}", hex::encode(k.as_bytes())), None => key.clone() };
        let succ = if succ.is_empty() { "-".to_string() } else { succ.iter().map(|(i, _)| i.clone()).collect::<Vec<_>>().join(",") };
        format!("{}/{}/{}/{}/{}", id, obj, key, if *insert { 1 } else { 0 }, succ)
    }).collect::<Vec<_>>().join(";")
}

/// `hash actor seq startOp deps ops time message extra` of a change
fn change_text(c: &Change) -> String {
    let line = def_line(c);
    let toks: Vec<&str> = line.split(' ').collect();
    format!("{}:{}:{}:{}:{}:{}:{}:{}:{}", toks[1], toks[2], toks[3], toks[4], toks[5], toks[6], c.timestamp(),
        hx(c.message().map(|m| m.as_bytes()).unwrap_or(&[])), hx(c.extra_bytes()))
}

fn err_class(e: &automerge::AutomergeError) -> String {
    let s = format!("{}", e);
    let cls = if s.contains("bad checksum") { "checksum" }
        else if s.contains("unable to parse chunk") { "parse" }
        else if s.contains("mismatching heads") { "heads" }
        else if s.contains("invalid changes") { "changes" }
        else if s.contains("invalid actor id") { "actorid" }
        else if s.contains("invalid column length") { "collen" }
        else if s.contains("max_op is lower") { "maxop" }
        else if s.contains("invalid mark operation order") { "markorder" }
        else if s.contains("error inflating document chunk ops") { "reconstruct" }
        else if s.contains("leftover") { "leftover" }
        else { "other" };
    cls.to_string()
}

pub fn exec(s: &mut CrdtSession, toks: &[&str], enc: TextEncoding) -> Vec<String> {
    match toks[0] {
        "crdt.dc.commit" => {
            s.tx_snapshots.remove(toks[1]);
            s.tx_state_snapshots.remove(toks[1]);
            let d = s.replicas.get_mut(toks[1]).unwrap();
            let mut opts = automerge::transaction::CommitOptions::default().with_time(toks[2].parse::<i64>().unwrap());
            let msg = String::from_utf8(unhx(toks[3])).unwrap();
            if !msg.is_empty() { opts = opts.with_message(msg); }
            let h = d.commit_with(opts);
            let isolated = s.iso_snap.contains_key(toks[1]);
            let orc = h.and_then(|h| super::crdt::own_previous_change_oracle(d, &h, isolated));
            if let (Some(h), true) = (h, isolated) { s.iso_snap.insert(toks[1].to_string(), vec![h]); }
            match h { Some(h) => { let mut v = vec!["ok".to_string(), format!("#hash {}", hex::encode(h.0))]; v.extend(orc); v } None => vec!["none".to_string()] }
        }
        "crdt.dc.save" => {
            let d = s.replicas.get(toks[1]).expect("replica");
            if d.pending_ops() > 0 { return vec!["pending".into()]; }
            let mut c = d.clone();
            let bytes = c.save_with_options(automerge::SaveOptions { deflate: false, retain_orphans: false });
            let p = match split_doc(&bytes) { Some(p) => p, None => return vec!["unsplittable".into()] };
            let mut res = vec![format!("actors {}", hx(&p.actors)), format!("heads {}", hx(&p.heads))];
            for (sp, dt) in &p.change_cols { res.push(format!("c {} {}", sp, hx(dt))); }
            for (sp, dt) in &p.op_cols { res.push(format!("o {} {}", sp, hx(dt))); }
            res.push(format!("suffix {}", hx(&p.suffix)));
            // C11 direct oracle: the saved bytes load, to the same heads, change bytes and op rows, and save again to the same bytes
            match AutoCommit::load_with_options(&bytes, automerge::LoadOptions::new().text_encoding(enc)) {
                Ok(mut l) => {
                    if l.get_heads() != c.get_heads() { res.push("! C11 sig=heads loaded document has different heads".into()); }
                    let a: Vec<Vec<u8>> = c.get_changes(&[]).iter().map(|x| x.raw_bytes().to_vec()).collect();
                    let b: Vec<Vec<u8>> = l.get_changes(&[]).iter().map(|x| x.raw_bytes().to_vec()).collect();
                    if a != b { res.push("! C11 sig=change-bytes loaded document returns different changes (bytes or graph order)".into()); }
                    if rows_text(c.document()) != rows_text(l.document()) { res.push("! C11 sig=op-rows loaded document holds different op rows".into()); }
                    let again = l.save_with_options(automerge::SaveOptions { deflate: false, retain_orphans: false });
                    if again != bytes { res.push("! C11 sig=resave saving the loaded document gives different bytes".into()); }
                    // compressed save of the same document inflates to the same columns
                    let z = c.save_with_options(automerge::SaveOptions { deflate: true, retain_orphans: false });
                    match AutoCommit::load_with_options(&z, automerge::LoadOptions::new().text_encoding(enc)) {
                        Ok(mut lz) => { if lz.save_with_options(automerge::SaveOptions { deflate: false, retain_orphans: false }) != bytes { res.push("! C11 sig=deflate-differs the compressed save loads to a document that saves differently".into()); } }
                        Err(e) => res.push(format!("! C11 sig=load-failed load(save(doc)) of the compressed save failed: {}", e)),
                    }
                }
                Err(e) => res.push(format!("! C11 sig=load-failed load(save(doc)) failed: {}", e)),
            }
            res
        }
        "crdt.dc.load" => {
            let bytes = unhx(toks[1]);
            match automerge::Automerge::load_with_options(&bytes, automerge::LoadOptions::new().text_encoding(enc)) {
                Err(e) => vec![format!("err {}", err_class(&e)), format!("#error {}", format!("{}", e).replace('\n', " "))],
                Ok(doc) => {
                    let mut heads: Vec<String> = doc.get_heads().iter().map(|h| hex::encode(h.0)).collect();
                    heads.sort();
                    let rows = catch_unwind(AssertUnwindSafe(|| rows_text(&doc)));
                    let rows_panic = rows.is_err();
                    let rows = rows.unwrap_or_else(|_| "PANIC".to_string());
                    let mut res = vec![format!("ok heads={}", if heads.is_empty() { "-".to_string() } else { heads.join(",") }), format!("rows {}", rows)];
                    if rows_panic { res.push("! C16 sig=read-panics load accepted the chunk but reading its op rows panics (actor index outside the actor table)".into()); }
                    let cs = catch_unwind(AssertUnwindSafe(|| doc.get_changes(&[])));
                    match cs {
                        Ok(cs) => {
                            res.push(format!("changes {}", if cs.is_empty() { "-".to_string() } else { cs.iter().map(change_text).collect::<Vec<_>>().join("|") }));
                            // C16 direct oracle: every row belongs to a change; every successor is a row or a delete op of a change
                            let mut ids: BTreeSet<String> = BTreeSet::new();
                            let mut dels: BTreeSet<String> = BTreeSet::new();
                            for c in &cs {
                                let e = c.decode();
                                for (i, op) in e.operations.iter().enumerate() {
                                    let id = format!("{}@{}", e.start_op.get() + i as u64, hex::encode(e.actor_id.to_bytes()));
                                    if matches!(op.action, automerge::legacy::OpType::Delete) { dels.insert(id); } else { ids.insert(id); }
                                }
                            }
                            let dump = if rows_panic { vec![] } else { doc.verif_dump_ops() };
                            let row_ids: BTreeSet<String> = dump.iter().map(|r| r.0.clone()).collect();
                            for r in &dump {
                                if !ids.contains(&r.0) { res.push(format!("! C16 sig=row-outside-changes load accepted a chunk whose op row {} belongs to no change of the document", r.0)); break; }
                            }
                            'outer: for r in &dump { for (sid, _) in &r.4 {
                                if !row_ids.contains(sid) && !dels.contains(sid) { res.push(format!("! C16 sig=dangling-successor load accepted a chunk in which op {} has successor {} which is neither a row nor a delete of a change", r.0, sid)); break 'outer; }
                            } }
                            if row_ids.len() != dump.len() { res.push("! C16 sig=duplicate-row load accepted a chunk with two op rows of one id".into()); }
                            for id in &ids { if !row_ids.contains(id) { res.push(format!("! C16 sig=missing-row op {} of a change has no row", id)); break; } }
                        }
                        Err(_) => {
                            res.push("changes PANIC".into());
                            res.push("! C16 sig=read-panics load accepted the chunk but get_changes() panics [at automerge/src/op_set2/change/collector.rs]".into());
                        }
                    }
                    // C16: the accepted document can be saved and loaded again
                    let again = catch_unwind(AssertUnwindSafe(|| doc.save_with_options(automerge::SaveOptions { deflate: false, retain_orphans: false })));
                    match again {
                        Ok(b2) => if automerge::Automerge::load_with_options(&b2, automerge::LoadOptions::new().text_encoding(enc)).is_err() {
                            res.push("! C16 sig=resave-unloadable load accepted the chunk but the document it gives saves into bytes that do not load".into());
                        },
                        Err(_) => res.push("! C16 sig=save-panics load accepted the chunk but save() panics".into()),
                    }
                    res
                }
            }
        }
        // direct-oracle probes on hand-built (foreign) changes; the model answers `done`
        "crdt.dc.probe" => {
            use automerge::{legacy, ActorId, ExpandedChange, ROOT};
            let mut res = vec!["done".to_string()];
            let mut d = AutoCommit::new_with_encoding(enc).with_actor(ActorId::from(vec![1u8]));
            d.put(ROOT, "a", 1i64).unwrap();
            let h1 = d.commit_with(automerge::transaction::CommitOptions::default().with_time(0)).unwrap();
            let (key, pred): (&str, Vec<legacy::OpId>) = match toks[1] {
                // a delete that names no predecessor (of an existing / a missing key)
                "del-nopred" => ("a", vec![]),
                "del-nopred-missing-key" => ("zz", vec![]),
                // a delete whose predecessor is itself deleted already is fine; here: a normal delete (control)
                _ => ("a", vec![legacy::OpId(1, ActorId::from(vec![1u8]))]),
            };
            let op = legacy::Op { action: legacy::OpType::Delete, obj: legacy::ObjectId::Root, key: legacy::Key::Map(key.into()),
                pred: pred.into_iter().collect(), insert: false };
            // an EMPTY change (no ops) whose start_op is / is not one past the max_op of its dependencies
            let (operations, start, what) = match toks[1] {
                "empty-gap" => (vec![], 10u64, "an applied change without ops whose start_op is beyond max_op + 1 of its dependencies"),
                "empty-nogap" => (vec![], 2u64, "an applied change without ops"),
                _ => (vec![op], 2u64, "an applied change with a delete op that names no predecessor"),
            };
            let e = ExpandedChange { operations, actor_id: ActorId::from(vec![2u8]), hash: None, seq: 1,
                start_op: std::num::NonZeroU64::new(start).unwrap(), time: 0, message: None, deps: vec![h1], extra_bytes: vec![] };
            let c = Change::from(e);
            match d.apply_changes(vec![c.clone()]) {
                Err(e) => res.push(format!("#apply-rejected {}", e)),
                Ok(()) => {
                    let bytes = d.save_with_options(automerge::SaveOptions { deflate: false, retain_orphans: false });
                    match AutoCommit::load_with_options(&bytes, automerge::LoadOptions::new().text_encoding(enc)) {
                        Ok(mut l) => {
                            let a: Vec<Vec<u8>> = d.get_changes(&[]).iter().map(|x| x.raw_bytes().to_vec()).collect();
                            let b: Vec<Vec<u8>> = l.get_changes(&[]).iter().map(|x| x.raw_bytes().to_vec()).collect();
                            if a != b { res.push("! C11 sig=change-bytes loaded document returns different changes".into()); }
                        }
                        Err(e) => res.push(format!("! C11 sig=load-failed a document holding {} saves into bytes that do not load: {}", what, e)),
                    }
                }
            }
            res
        }
        _ => vec!["unknown-cmd".into()],
    }
}

// ------------------------------------------------------------------ generator

/// the last save of every replica of the running case (reset by `generate`)
static PREV: std::sync::Mutex<BTreeMap<String, Vec<u8>>> = std::sync::Mutex::new(BTreeMap::new());

fn commit(r: &mut Rng, sess: &mut Session, out: &mut Out, who: &str, all: &mut Vec<String>) {
    let line = if r.chance(1, 3) {
        let msg = ["", "m", "fix é", "hello world"][r.below(4) as usize];
        let t = match r.below(4) { 0 => 0i64, 1 => r.below(1000) as i64, 2 => -(r.below(50) as i64), _ => 1_700_000_000_000 + r.below(100000) as i64 };
        format!("crdt.dc.commit {} {} {}", who, t, hx(msg.as_bytes()))
    } else { format!("crdt.commit {}", who) };
    let res = exec_line(sess, &line, out);
    if res[0] == "ok" {
        let hh = ChangeHash::try_from(unhx(res[1].strip_prefix("#hash ").unwrap()).as_slice()).unwrap();
        let c = sess.crdt.replicas.get_mut(who).unwrap().get_change_by_hash(&hh).unwrap();
        exec_line(sess, &def_line(&c), out);
        exec_line(sess, &format!("crdt.local {} {}", who, hex::encode(hh.0)), out);
        all.push(hex::encode(hh.0));
    }
}

fn shuffle(r: &mut Rng, v: &mut Vec<String>) {
    for i in (1..v.len()).rev() { let j = r.below(i as u64 + 1) as usize; v.swap(i, j); }
}

fn save_dump(sess: &mut Session, out: &mut Out, who: &str) -> bool {
    if !sess.crdt.replicas.contains_key(who) { return false; }
    if sess.crdt.replicas.get(who).unwrap().pending_ops() > 0 { return false; }
    exec_line(sess, &format!("crdt.dc.save {}", who), out);
    out.count("saves");
    true
}

/// load the real save of `who` (plain or compressed) and mutants of it
fn load_variants(r: &mut Rng, sess: &mut Session, out: &mut Out, who: &str) {
    let d = match sess.crdt.replicas.get(who) { Some(d) => d.clone(), None => return };
    if d.pending_ops() > 0 { return; }
    let mut c = d.clone();
    let plain = c.save_with_options(automerge::SaveOptions { deflate: false, retain_orphans: false });
    if plain.len() > 9000 { out.count("too_big_for_load"); return; }
    exec_line(sess, &format!("crdt.dc.load {}", hex::encode(&plain)), out);
    out.count("loads_plain");
    if r.chance(1, 3) {
        let z = c.save_with_options(automerge::SaveOptions { deflate: true, retain_orphans: false });
        if z != plain { out.count("loads_compressed_with_deflated_column"); }
        exec_line(sess, &format!("crdt.dc.load {}", hex::encode(&z)), out);
        out.count("loads_deflate_option");
    }
    let p = match split_doc(&plain) { Some(p) => p, None => return };
    // the history of an earlier save of this replica under the op columns of this one, and the reverse
    {
        let mut prev = PREV.lock().unwrap();
        if let Some(old) = prev.get(who).and_then(|b| split_doc(b)) {
            if old.actors == p.actors && old.heads != p.heads && r.chance(1, 3) {
                let mut q = old.clone(); q.op_cols = p.op_cols.clone();
                let f = join_doc(&q);
                drop(prev);
                let res = exec_line(sess, &format!("crdt.dc.load {}", hex::encode(&f)), out);
                out.count(if res[0].starts_with("ok") { "mix_old_history_new_ops_ok" } else { "mix_old_history_new_ops_rejected" });
                let mut q = p.clone(); q.op_cols = old.op_cols.clone();
                exec_line(sess, &format!("crdt.dc.load {}", hex::encode(&join_doc(&q))), out);
                out.count("mix_new_history_old_ops");
                prev = PREV.lock().unwrap();
            }
        }
        prev.insert(who.to_string(), plain.clone());
    }
    let nmut = r.range(1, 5);
    for _ in 0..nmut {
        let mut q = p.clone();
        // value-level mutation: one value of one column changed, the column re-encoded canonically
        if r.chance(2, 5) {
            let which_ops = r.chance(3, 5);
            let cols = if which_ops { &mut q.op_cols } else { &mut q.change_cols };
            if cols.is_empty() { continue; }
            let ci = r.below(cols.len() as u64) as usize;
            let (spec, data) = cols[ci].clone();
            if let Some(nd) = mutate_values(r, spec, which_ops, &data) {
                if nd == data { continue; }
                cols[ci].1 = nd;
                let f = join_doc(&q);
                let res = exec_line(sess, &format!("crdt.dc.load {}", hex::encode(&f)), out);
                out.count("mut_value");
                let cls = res.get(0).map(|s| s.split(' ').take(2).collect::<Vec<_>>().join("_")).unwrap_or_default();
                out.count(&format!("vmutant_{}", if cls.starts_with("ok") { "ok".to_string() } else { cls }));
            }
            continue;
        }
        let kind = r.below(12);
        let which_ops = r.chance(2, 3);
        let ncols = if which_ops { q.op_cols.len() } else { q.change_cols.len() };
        if ncols == 0 { continue; }
        let ci = r.below(ncols as u64) as usize;
        let label;
        {
            let cols = if which_ops { &mut q.op_cols } else { &mut q.change_cols };
            match kind {
                0 | 1 | 2 => { // one byte of one column changed
                    let col = &mut cols[ci].1;
                    let i = r.below(col.len() as u64) as usize;
                    let old = col[i];
                    col[i] = match r.below(4) { 0 => old ^ (1 << r.below(8)), 1 => old.wrapping_add(1), 2 => old.wrapping_sub(1), _ => r.next() as u8 };
                    label = "mut_byte";
                }
                3 => { // truncated column
                    let col = &mut cols[ci].1;
                    let k = r.below(col.len() as u64) as usize;
                    col.truncate(k);
                    label = "mut_truncate";
                }
                4 => { // a byte inserted
                    let col = &mut cols[ci].1;
                    let i = r.below(col.len() as u64 + 1) as usize;
                    col.insert(i, [0u8, 1, 2, 0x7f, 0x80, 0xff][r.below(6) as usize]);
                    label = "mut_insert";
                }
                5 => { // two column specs swapped (data stays)
                    if ncols < 2 { continue; }
                    let cj = r.below(ncols as u64) as usize;
                    if cj == ci { continue; }
                    let (a, b) = (cols[ci].0, cols[cj].0);
                    cols[ci].0 = b; cols[cj].0 = a;
                    label = "mut_swap_specs";
                }
                6 => { // a column spec replaced by another type / id
                    let s = cols[ci].0;
                    cols[ci].0 = match r.below(4) { 0 => (s & !7) | r.below(8) as u32, 1 => s ^ 0x10, 2 => s | 8, _ => s + 0x100 };
                    label = "mut_spec";
                }
                7 => { // a column removed
                    cols.remove(ci);
                    label = "mut_drop_column";
                }
                8 => { // two columns' data swapped
                    if ncols < 2 { continue; }
                    let cj = r.below(ncols as u64) as usize;
                    if cj == ci { continue; }
                    let (a, b) = (cols[ci].1.clone(), cols[cj].1.clone());
                    cols[ci].1 = b; cols[cj].1 = a;
                    label = "mut_swap_data";
                }
                _ => { label = "mut_other"; }
            }
        }
        if kind >= 9 {
            match kind {
                9 => { // head / actor table / suffix bytes
                    match r.below(3) {
                        0 if !q.heads.is_empty() => { let i = r.below(q.heads.len() as u64) as usize; q.heads[i] ^= 1 << r.below(8); }
                        1 if !q.actors.is_empty() => { let i = r.below(q.actors.len() as u64) as usize; q.actors[i] = q.actors[i].wrapping_add(1); }
                        _ => { if q.suffix.is_empty() || r.chance(1, 2) { q.suffix.push(r.below(3) as u8); } else { q.suffix.pop(); } }
                    }
                }
                10 => { // whole-file truncation / trailing byte (checksum NOT fixed)
                    let mut f = plain.clone();
                    if r.chance(1, 2) { let k = r.below(f.len() as u64) as usize; f.truncate(k); } else { f.push(0); }
                    exec_line(sess, &format!("crdt.dc.load {}", hx(&f)), out);
                    out.count("mut_file");
                    continue;
                }
                _ => { // a bit flipped anywhere, checksum not fixed
                    let mut f = plain.clone();
                    let i = r.below(f.len() as u64) as usize;
                    f[i] ^= 1 << r.below(8);
                    exec_line(sess, &format!("crdt.dc.load {}", hex::encode(&f)), out);
                    out.count("mut_flip_unfixed");
                    continue;
                }
            }
            out.count("mut_tables");
        } else { out.count(label); }
        let f = join_doc(&q);
        let res = exec_line(sess, &format!("crdt.dc.load {}", hex::encode(&f)), out);
        let cls = res.get(0).map(|s| s.split(' ').take(2).collect::<Vec<_>>().join("_")).unwrap_or_default();
        out.count(&format!("mutant_{}", if cls.starts_with("ok") { "ok".to_string() } else { cls }));
    }
}

/// three replicas, one map key + one list + one text contested; counters with increments, deletes,
/// nested objects, marks; concurrent changes delivered in shuffled batches; dump after every few steps
fn generate_focus(r: &mut Rng, sess: &mut Session, out: &mut Out) {
    out.count("focus_cases");
    let enc = ["cp", "utf8", "utf16"][r.below(3) as usize];
    let mut actors: Vec<Vec<u8>> = (0..4).map(|i| vec![0x20 + 0x30 * i as u8 + r.below(8) as u8]).collect();
    if r.chance(1, 2) { actors.reverse(); }
    if r.chance(1, 3) { actors.swap(0, 1); }
    exec_line(sess, &format!("crdt.new r0 {} {}", enc, hex::encode(&actors[0])), out);
    let res = exec_line(sess, "crdt.putobj r0 _ m6c L", out);
    let list = res[0].strip_prefix("ok ").unwrap_or("_").to_string();
    let res = exec_line(sess, "crdt.putobj r0 _ m74 T", out);
    let text = res[0].strip_prefix("ok ").unwrap_or("_").to_string();
    exec_line(sess, &format!("crdt.ins r0 {} 0 c5", list), out);
    exec_line(sess, &format!("crdt.ins r0 {} 1 s78", list), out);
    exec_line(sess, &format!("crdt.splice r0 {} 0 0 {}", text, hex::encode("abc")), out);
    exec_line(sess, "crdt.put r0 _ m61 c1", out);
    let mut all: Vec<String> = vec![];
    commit(r, sess, out, "r0", &mut all);
    save_dump(sess, out, "r0");
    exec_line(sess, &format!("crdt.fork r0 r1 {}", hex::encode(&actors[1])), out);
    exec_line(sess, &format!("crdt.fork r0 r2 {}", hex::encode(&actors[2])), out);
    let names = ["r0".to_string(), "r1".to_string(), "r2".to_string()];
    let vals = ["c3", "c7", "i4", "s79", "n", "b1", "f4607182418800017408", "u7", "t1234", "x0001ff", "i-200", "sf09f9982", "i1000000"];
    let txts = ["a", "bc", "é", "🙂", "xyz"];
    for _round in 0..r.range(2, 5) {
        for who in names.iter() {
            if r.chance(1, 4) { continue; }
            for _ in 0..r.range(1, 3) {
                let d = sess.crdt.replicas.get(who).unwrap();
                let len = d.length(parse_exid(&list)) as u64;
                let tlen = d.length(parse_exid(&text)) as u64;
                let v = vals[r.below(vals.len() as u64) as usize];
                let line = match r.below(14) {
                    0 | 1 => format!("crdt.put {} _ m61 {}", who, v),
                    2 if len > 0 => format!("crdt.put {} {} i{} {}", who, list, r.below(len.min(2)), v),
                    3 => format!("crdt.inc {} _ m61 {}", who, r.range(1, 3)),
                    4 if len > 0 => format!("crdt.inc {} {} i{} {}", who, list, r.below(len.min(2)), r.range(1, 3)),
                    5 => if r.chance(1, 2) || len == 0 { format!("crdt.del {} _ m61", who) } else { format!("crdt.del {} {} i{}", who, list, r.below(len)) },
                    6 | 7 => format!("crdt.ins {} {} {} {}", who, list, r.below(len + 1), v),
                    8 | 9 => { let pos = r.below(tlen + 1); let del = if tlen > pos && r.chance(1, 2) { r.range(1, (tlen - pos).min(2)) } else { 0 };
                               format!("crdt.splice {} {} {} {} {}", who, text, pos, del, hex::encode(txts[r.below(5) as usize])) }
                    10 => format!("crdt.putobj {} _ m6f {}", who, ["M", "L", "T"][r.below(3) as usize]),
                    11 => format!("crdt.insobj {} {} {} {}", who, list, r.below(len + 1), ["M", "L", "T"][r.below(3) as usize]),
                    _ => format!("crdt.put {} _ m{} {}", who, hex::encode(["b", "k", "é"][r.below(3) as usize]), v),
                };
                exec_line(sess, &line, out);
            }
            commit(r, sess, out, who, &mut all);
            if r.chance(1, 2) { save_dump(sess, out, who); }
        }
        for who in names.iter() {
            if all.is_empty() || r.chance(1, 3) { continue; }
            let mut pick: Vec<String> = all.iter().filter(|_| r.chance(2, 3)).cloned().collect();
            shuffle(r, &mut pick);
            if pick.is_empty() { continue; }
            let via = if r.chance(1, 4) { "crdt.loadinc" } else { "crdt.apply" };
            exec_line(sess, &format!("{} {} {}", via, who, pick.join(",")), out);
            save_dump(sess, out, who);
            if r.chance(1, 2) { load_variants(r, sess, out, who); }
        }
    }
    for n in names.iter() { exec_line(sess, &format!("crdt.apply {} {}", n, all.join(",")), out); }
    for n in names.iter() { save_dump(sess, out, n); }
    let who = names[r.below(3) as usize].clone();
    load_variants(r, sess, out, &who);
    // marks (the plain `crdt` model does not place later text edits around marks: they come last)
    #[cfg(feature = "e_richtext")]
    if r.chance(1, 2) {
        let who = names[r.below(3) as usize].clone();
        let tlen = sess.crdt.replicas.get(&who).unwrap().length(parse_exid(&text)) as u64;
        if tlen >= 2 {
            for _ in 0..r.range(1, 2) {
                let s0 = r.below(tlen - 1); let e0 = r.range(s0 + 1, tlen);
                exec_line(sess, &format!("crdt.rt.mark {} {} {} {} {} {} {}", who, text, s0, e0, ["none", "before", "after", "both"][r.below(4) as usize],
                    hex::encode(["bold", "k"][r.below(2) as usize]), ["b1", "s78", "c2", "n"][r.below(4) as usize]), out);
            }
            out.count("mark_cases");
            commit(r, sess, out, &who, &mut all);
            save_dump(sess, out, &who);
            load_variants(r, sess, out, &who);
            return;
        }
    }
    // a late joiner with an actor that sorts first receives everything one by one and edits
    if r.chance(1, 2) {
        exec_line(sess, &format!("crdt.new late {} {}", enc, hex::encode([0x01u8, r.next() as u8])), out);
        out.count("late_joiner");
        let mut a2 = all.clone(); shuffle(r, &mut a2);
        for h in a2 { exec_line(sess, &format!("crdt.apply late {}", h), out); if r.chance(1, 4) { save_dump(sess, out, "late"); } }
        exec_line(sess, &format!("crdt.put late _ m61 {}", vals[r.below(vals.len() as u64) as usize]), out);
        commit(r, sess, out, "late", &mut all);
        save_dump(sess, out, "late");
        load_variants(r, sess, out, "late");
    }
}

/// the general generator of the `crdt` engine (random transactions over maps, lists, texts, nested
/// objects; forks; partial / shuffled / duplicated deliveries) with a save dump after every few steps
fn generate_general(r: &mut Rng, sess: &mut Session, out: &mut Out) {
    out.count("general_cases");
    let enc = ["cp", "utf8", "utf16"][r.below(3) as usize];
    let nrep = r.range(2, 4) as usize;
    let mut actors: Vec<Vec<u8>> = (0..8).map(|i| vec![0x10 * (8 - i as u8) + r.below(8) as u8, r.next() as u8]).collect();
    if r.chance(1, 2) { actors.reverse(); }
    let mut names: Vec<String> = vec!["r0".into()];
    exec_line(sess, &format!("crdt.new r0 {} {}", enc, hex::encode(&actors[0])), out);
    let mut next_actor = 1;
    let mut known_objs: Vec<(String, ObjType)> = vec![("_".into(), ObjType::Map)];
    let mut all_changes: Vec<String> = vec![];
    let steps = r.range(8, 28);
    for _ in 0..steps {
        let who = names[r.below(names.len() as u64) as usize].clone();
        match r.below(10) {
            0 if names.len() < nrep => {
                let n = format!("r{}", names.len());
                next_actor += 1;
                exec_line(sess, &format!("crdt.fork {} {} {}", who, n, hex::encode(&actors[next_actor - 1])), out);
                names.push(n);
            }
            1 | 2 if !all_changes.is_empty() => {
                let k = r.range(1, 4.min(all_changes.len() as u64)) as usize;
                let mut pick: Vec<String> = (0..k).map(|_| all_changes[r.below(all_changes.len() as u64) as usize].clone()).collect();
                if r.chance(1, 3) { pick.reverse(); }
                let via = if r.chance(1, 3) { "crdt.loadinc" } else { "crdt.apply" };
                exec_line(sess, &format!("{} {} {}", via, who, pick.join(",")), out);
                out.count("deliver_subset");
            }
            3 if !all_changes.is_empty() => {
                let mut all = all_changes.clone();
                shuffle(r, &mut all);
                exec_line(sess, &format!("crdt.apply {} {}", who, all.join(",")), out);
                out.count("deliver_all_shuffled");
            }
            _ => { local_tx(r, sess, out, &who, &mut known_objs, &mut all_changes); }
        }
        if r.chance(1, 3) { save_dump(sess, out, &who); }
        if r.chance(1, 10) { load_variants(r, sess, out, &who); }
    }
    if !all_changes.is_empty() && r.chance(1, 2) {
        exec_line(sess, &format!("crdt.new late {} {}", enc, hex::encode(r.bytes(3))), out);
        names.push("late".into());
        out.count("late_joiner");
        let mut all = all_changes.clone();
        shuffle(r, &mut all);
        for h in all {
            let via = if r.chance(1, 2) { "crdt.loadinc" } else { "crdt.apply" };
            exec_line(sess, &format!("{} late {}", via, h), out);
            if r.chance(1, 4) { save_dump(sess, out, "late"); }
        }
    }
    for n in names.clone() {
        let mut all = all_changes.clone();
        shuffle(r, &mut all);
        if !all.is_empty() { exec_line(sess, &format!("crdt.apply {} {}", n, all.join(",")), out); }
        save_dump(sess, out, &n);
    }
    let who = names[r.below(names.len() as u64) as usize].clone();
    load_variants(r, sess, out, &who);
}

/// changes of 15..40 ops (both sides of the collector's vector / progressive encoder switch), two
/// replicas, then value-level mutants
fn generate_big(r: &mut Rng, sess: &mut Session, out: &mut Out) {
    out.count("big_cases");
    let enc = ["cp", "utf8"][r.below(2) as usize];
    let a0 = vec![0x40 + r.below(16) as u8];
    let a1 = vec![if r.chance(1, 2) { 0x10 } else { 0x90 } + r.below(16) as u8];
    exec_line(sess, &format!("crdt.new r0 {} {}", enc, hex::encode(&a0)), out);
    let res = exec_line(sess, "crdt.putobj r0 _ m74 T", out);
    let text = res[0].strip_prefix("ok ").unwrap_or("_").to_string();
    let mut all: Vec<String> = vec![];
    let n = r.range(13, 38);
    for i in 0..n {
        if r.chance(1, 3) { exec_line(sess, &format!("crdt.splice r0 {} 0 0 {}", text, hex::encode(["a", "bc", "é"][r.below(3) as usize])), out); }
        else { exec_line(sess, &format!("crdt.put r0 _ m{} {}", hex::encode(format!("k{:02}", i % 12)), ["i1", "s78", "c3", "n", "u9"][r.below(5) as usize]), out); }
    }
    // a long text: the raw value column (and others) pass DEFLATE_MIN_SIZE, so the compressed save deflates them
    if r.chance(1, 2) {
        let long: String = (0..r.range(270, 330)).map(|_| (b'a' + r.below(26) as u8) as char).collect();
        exec_line(sess, &format!("crdt.splice r0 {} 0 0 {}", text, hex::encode(long)), out);
        out.count("long_text");
    }
    commit(r, sess, out, "r0", &mut all);
    save_dump(sess, out, "r0");
    exec_line(sess, &format!("crdt.fork r0 r1 {}", hex::encode(&a1)), out);
    for who in ["r0", "r1"] {
        for i in 0..r.range(1, 22) {
            match r.below(4) {
                0 => { exec_line(sess, &format!("crdt.inc {} _ m{} 2", who, hex::encode(format!("k{:02}", i % 12))), out); }
                1 => { exec_line(sess, &format!("crdt.del {} _ m{}", who, hex::encode(format!("k{:02}", r.below(12)))), out); }
                2 => { let tl = sess.crdt.replicas.get(who).unwrap().length(parse_exid(&text)) as u64;
                       exec_line(sess, &format!("crdt.splice {} {} {} {} {}", who, text, r.below(tl + 1), 0, hex::encode("xy")), out); }
                _ => { exec_line(sess, &format!("crdt.put {} _ m{} i{}", who, hex::encode(format!("k{:02}", r.below(14))), i), out); }
            }
        }
        commit(r, sess, out, who, &mut all);
        save_dump(sess, out, who);
    }
    exec_line(sess, &format!("crdt.apply r0 {}", all.join(",")), out);
    save_dump(sess, out, "r0");
    load_variants(r, sess, out, "r0");
    load_variants(r, sess, out, "r0");
}

pub fn generate(r: &mut Rng, _opts: &BTreeMap<String, String>, sess: &mut Session, out: &mut Out) {
    PREV.lock().unwrap().clear();
    if r.chance(1, 50) {
        exec_line(sess, "crdt.new r0 cp 01", out);
        exec_line(sess, &format!("crdt.dc.probe {}", ["del-nopred", "del-nopred-missing-key", "control", "empty-gap", "empty-nogap"][r.below(5) as usize]), out);
        out.count("probes");
    }
    match r.below(10) {
        0 | 1 | 2 | 3 => generate_focus(r, sess, out),
        4 => generate_big(r, sess, out),
        _ => generate_general(r, sess, out),
    }
}
