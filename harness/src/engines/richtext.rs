//! Extension of the `crdt` engine: commands `crdt.rt.*` operate on the replicas of `CrdtSession`.
//!
//! Rich text (properties C24 text widths, C25 marks, C26 cursors).  Every command prints what the
//! real API returned (the Lean side `Driver/CrdtRich.lean` predicts the same lines from the op set)
//! and evaluates the DIRECT ORACLES of the three properties on the implementation alone.  The
//! oracles use an independent "shadow" of the text object computed from the *changes* of the
//! document (RGA order from the insert ops' reference elements, Peritext coverage from the
//! begin/end mark ops), never from the op store's own indexes.
use super::crdt::{def_line, err_class, parse_exid, parse_scalar, show_exid, show_scalar, width, CrdtSession};
use super::{hx, unhx};
use crate::{exec_line, rng::Rng, Out, Session};
use automerge::{
    iter::Span, legacy, marks::{ExpandMark, Mark}, transaction::Transactable, AutoCommit, ChangeHash, Cursor, MoveCursor,
    ObjId, ObjType, ReadDoc, ScalarValue, TextEncoding, Value,
};
use std::collections::BTreeMap;

type Id = (u64, Vec<u8>);
type MarkMap = BTreeMap<String, String>; // mark name (hex) -> value (canonical scalar text)

fn show_id(i: &Id) -> String { format!("{}@{}", i.0, hex::encode(&i.1)) }
fn parse_id(s: &str) -> Option<Id> {
    let (c, a) = s.split_once('@')?;
    Some((c.parse().ok()?, hex::decode(a).ok()?))
}
fn exid_id(e: &ObjId) -> Option<Id> {
    match e { ObjId::Root => None, ObjId::Id(c, a, _) => Some((*c, a.to_bytes().to_vec())) }
}
fn parse_heads(s: &str) -> Vec<ChangeHash> {
    if s == "-" { return vec![]; }
    s.split(',').map(|h| ChangeHash::try_from(unhx(h).as_slice()).unwrap()).collect()
}
fn rt_err(e: &automerge::AutomergeError) -> &'static str {
    use automerge::AutomergeError as E;
    match e {
        E::InvalidCursor(_) => "cursor",
        E::InvalidCursorFormat => "cursorfmt",
        _ => err_class(e),
    }
}
fn parse_expand(s: &str) -> ExpandMark {
    match s { "before" => ExpandMark::Before, "after" => ExpandMark::After, "both" => ExpandMark::Both, "none" => ExpandMark::None, _ => panic!("expand") }
}
fn show_set(m: &MarkMap) -> String {
    if m.is_empty() { return ".".into(); }
    m.iter().map(|(k, v)| format!("{}={}", k, v)).collect::<Vec<_>>().join("&")
}
fn markset_map(ms: &automerge::marks::MarkSet) -> MarkMap {
    ms.iter().map(|(n, v)| (hex::encode(n.as_bytes()), show_scalar(v))).collect()
}

// ------------------------------------------------------------------ shadow (independent reading of the changes)

#[derive(Clone, Debug)]
enum SKind { Str(String), Other, Del, Inc, Begin { name: String, value: String, expand: bool }, End { expand: bool } }

#[derive(Clone, Debug)]
struct SOp { id: Id, obj: String, elem_key: Option<Id>, is_head: bool, insert: bool, kind: SKind, pred: Vec<Id> }

/// all operations of the document (pending ones included: the clone commits them), from `get_changes`
fn shadow_ops(doc: &AutoCommit) -> Vec<SOp> {
    let mut c = doc.clone();
    let mut res = vec![];
    for ch in c.get_changes(&[]) {
        let e = ch.decode();
        let actor = e.actor_id.to_bytes().to_vec();
        for (i, op) in e.operations.iter().enumerate() {
            let lid = |x: &legacy::OpId| -> Id { (x.0, x.1.to_bytes().to_vec()) };
            let obj = match &op.obj { legacy::ObjectId::Root => "_".to_string(), legacy::ObjectId::Id(x) => show_id(&lid(x)) };
            let (elem_key, is_head) = match &op.key {
                legacy::Key::Map(_) => (None, false),
                legacy::Key::Seq(legacy::ElementId::Head) => (None, true),
                legacy::Key::Seq(legacy::ElementId::Id(x)) => (Some(lid(x)), false),
            };
            let kind = match &op.action {
                legacy::OpType::Put(ScalarValue::Str(s)) => SKind::Str(s.to_string()),
                legacy::OpType::Put(_) | legacy::OpType::Make(_) => SKind::Other,
                legacy::OpType::Delete => SKind::Del,
                legacy::OpType::Increment(_) => SKind::Inc,
                legacy::OpType::MarkBegin(m) => SKind::Begin { name: hex::encode(m.name.as_bytes()), value: show_scalar(&m.value), expand: m.expand },
                legacy::OpType::MarkEnd(x) => SKind::End { expand: *x },
            };
            res.push(SOp { id: (e.start_op.get() + i as u64, actor.clone()), obj, elem_key, is_head, insert: op.insert, kind, pred: op.pred.iter().map(lid).collect() });
        }
    }
    res
}

/// RGA order of the insert ops (marks included) of `obj`: children of an element in descending id order, depth first
fn shadow_rga(ops: &[SOp], obj: &str) -> Vec<SOp> {
    let mut kids: BTreeMap<Option<Id>, Vec<&SOp>> = BTreeMap::new();
    for o in ops.iter().filter(|o| o.obj == obj && o.insert) {
        kids.entry(o.elem_key.clone()).or_default().push(o);
    }
    for v in kids.values_mut() { v.sort_by(|a, b| b.id.cmp(&a.id)); }
    let mut out = vec![];
    let mut stack: Vec<&SOp> = kids.get(&None).map(|v| v.iter().rev().cloned().collect()).unwrap_or_default();
    while let Some(o) = stack.pop() {
        out.push(o.clone());
        if let Some(ch) = kids.get(&Some(o.id.clone())) { for c in ch.iter().rev() { stack.push(c); } }
    }
    out
}

/// Peritext marking of the slot before `order[k]`: per name the value of the greatest-id begin whose end has
/// not been passed (null = unmarked)
fn peritext_at(order: &[SOp], k: usize) -> MarkMap {
    let mut active: Vec<(Id, String, String)> = vec![];
    for o in &order[..k.min(order.len())] {
        match &o.kind {
            SKind::Begin { name, value, .. } => active.push((o.id.clone(), name.clone(), value.clone())),
            SKind::End { .. } => { let b = (o.id.0 - 1, o.id.1.clone()); active.retain(|a| a.0 != b); }
            _ => {}
        }
    }
    let mut best: BTreeMap<String, (Id, String)> = BTreeMap::new();
    for (id, name, value) in &active {
        match best.get(name) { Some((bid, _)) if bid > id => {}, _ => { best.insert(name.clone(), (id.clone(), value.clone())); } }
    }
    best.into_iter().filter(|(_, (_, v))| v != "n").map(|(n, (_, v))| (n, v)).collect()
}

/// the element an op id belongs to (its own id for an insert, its key otherwise)
fn elem_of(ops: &[SOp], id: &Id) -> Option<Id> {
    let o = ops.iter().find(|o| &o.id == id)?;
    if o.insert { Some(o.id.clone()) } else { o.elem_key.clone() }
}

// ------------------------------------------------------------------ the implementation's view, element by element

struct Elem { start: usize, width: usize, text: String, ids: Vec<Id> }

fn elem_walk(d: &AutoCommit, obj: &ObjId, heads: Option<&[ChangeHash]>, enc: TextEncoding) -> Vec<Elem> {
    let len = match heads { Some(h) => d.length_at(obj, h), None => d.length(obj) };
    let mut res = vec![];
    let mut i = 0;
    while i < len {
        let vals = match heads { Some(h) => d.get_all_at(obj, i, h), None => d.get_all(obj, i) }.unwrap_or_default();
        let text = match vals.last() {
            Some((Value::Scalar(s), _)) => match s.as_ref() { ScalarValue::Str(s) => s.to_string(), _ => "\u{fffc}".to_string() },
            _ => "\u{fffc}".to_string(),
        };
        let mut w = width(enc, &text);
        if w == 0 { w = 1; }
        res.push(Elem { start: i, width: w, text, ids: vals.iter().filter_map(|(_, id)| exid_id(id)).collect() });
        i += w;
    }
    res
}

/// (element start positions incl. the end, positions where a block marker with ONE visible op starts) of a text object
pub fn block_positions(d: &AutoCommit, obj: &ObjId, enc: TextEncoding) -> (Vec<usize>, Vec<usize>) {
    let mut starts = vec![];
    let mut blocks = vec![];
    for e in elem_walk(d, obj, None, enc) {
        starts.push(e.start);
        let vals = d.get_all(obj, e.start).unwrap_or_default();
        if vals.len() == 1 && matches!(vals[0].0, Value::Object(ObjType::Map)) { blocks.push(e.start); }
    }
    starts.push(d.length(obj));
    (starts, blocks)
}

/// `cmp_lines`: the lines with a stale `marks()` (finding F3) replaced by the marks of the reloaded document,
/// for comparisons between replicas
struct ReadOut { lines: Vec<String>, oracle: Vec<String>, cmp_lines: Vec<String> }

fn read_obj(d: &AutoCommit, obj: &ObjId, heads: Option<&[ChangeHash]>, enc: TextEncoding, with_oracles: bool) -> ReadOut {
    let mut oracle = vec![];
    let len = match heads { Some(h) => d.length_at(obj, h), None => d.length(obj) };
    let text = match heads { Some(h) => d.text_at(obj, h), None => d.text(obj) };
    let text = match text { Ok(t) => t, Err(e) => return ReadOut { lines: vec![format!("err {}", rt_err(&e))], oracle, cmp_lines: vec![] } };
    let marks = match heads { Some(h) => d.marks_at(obj, h), None => d.marks(obj) }.unwrap_or_default();
    let mut gm: Vec<MarkMap> = vec![];
    for i in 0..=len {
        gm.push(d.get_marks(obj, i, heads).map(|m| markset_map(&m)).unwrap_or_default());
    }
    let spans: Vec<Span> = match heads { Some(h) => d.spans_at(obj, h), None => d.spans(obj) }.map(|s| s.collect()).unwrap_or_default();
    let mut lines = vec![format!("len {}", len), format!("text {}", hx(text.as_bytes()))];
    let marks_line = |ms: &Vec<Mark>| format!("marks {}", if ms.is_empty() { "-".to_string() } else {
        ms.iter().map(|m| format!("{}:{}:{}:{}", hex::encode(m.name().as_bytes()), m.start, m.end, show_scalar(m.value()))).collect::<Vec<_>>().join(",") });
    lines.push(marks_line(&marks));
    // F3: present-time marks() comes from the incrementally maintained mark index; it must equal marks() of the
    // same document rebuilt from its saved bytes.  When it does not, that ONE defect is reported
    // (`marks-index-stale`) and every other comparison of this read uses the rebuilt marks, so that the
    // generic slugs (marks-vs-spans, peritext-value, marks-merge, …) keep their meaning.
    let mut stale_marks: Option<Vec<Mark>> = None;
    if heads.is_none() {
        let bytes = d.clone().save();
        if let Ok(l) = AutoCommit::load_with_options(&bytes, automerge::LoadOptions::new().text_encoding(enc)) {
            if let Ok(fresh) = l.marks(obj) { if fresh != marks { stale_marks = Some(fresh); } }
        }
    }
    let reported_marks = marks.clone();
    let marks = match &stale_marks { Some(f) => f.clone(), None => marks };
    lines.push(format!("gm {}", gm.iter().map(show_set).collect::<Vec<_>>().join("|")));
    let span_strs: Vec<String> = spans.iter().map(|s| match s {
        Span::Text { text, marks } => format!("t:{}:{}", hx(text.as_bytes()), show_set(&marks.as_ref().map(|m| markset_map(m)).unwrap_or_default())),
        Span::Block(_) => "b".to_string(),
    }).collect();
    lines.push(format!("spans {}", if span_strs.is_empty() { "-".to_string() } else { span_strs.join(";") }));
    let mut cmp_lines = lines.clone();
    cmp_lines[2] = marks_line(&marks);
    if !with_oracles { return ReadOut { lines, oracle, cmp_lines }; }
    if stale_marks.is_some() {
        oracle.push(format!("! C25 sig=marks-index-stale marks() = [{}] but the same document reloaded from save() reports [{}] (mark index not maintained by apply_changes)", &marks_line(&reported_marks)[6..], &marks_line(&marks)[6..]));
    }

    // ---------------- C24
    let w = width(enc, &text);
    if len != w {
        if enc == TextEncoding::GraphemeCluster {
            oracle.push(format!("! C24 sig=grapheme-cross-element length {} but the text has {} grapheme clusters (text {})", len, w, hx(text.as_bytes())));
        } else {
            oracle.push(format!("! C24 sig=length-width length {} but width(text) = {} (text {})", len, w, hx(text.as_bytes())));
        }
    }
    let concat: String = spans.iter().map(|s| s.as_str()).collect();
    if concat != text { oracle.push(format!("! C24 sig=spans-concat concatenated spans {} differ from text {}", hx(concat.as_bytes()), hx(text.as_bytes()))); }
    let elems = elem_walk(d, obj, heads, enc);
    if enc == TextEncoding::GraphemeCluster && elems.iter().any(|e| e.width != 1) {
        // the model counts one unit per element under grapheme clusters (Model/TextWidth `gOne`)
        oracle.push("! C24 sig=gc-element-width an element is not exactly one grapheme cluster wide (model assumption)".to_string());
    }
    let etext: String = elems.iter().map(|e| e.text.as_str()).collect();
    if etext != text { oracle.push(format!("! C24 sig=text-vs-elements elements read by index give {} but text is {}", hx(etext.as_bytes()), hx(text.as_bytes()))); }
    let consistent = len == w && concat == text && etext == text;
    if consistent && enc != TextEncoding::GraphemeCluster {
        // every unit index resolves to the scalar value whose unit range (computed with std) contains it
        let mut unit = 0;
        'outer: for ch in text.chars() {
            let cw = width(enc, &ch.to_string());
            for k in 0..cw {
                let got = match heads { Some(h) => d.get_at(obj, unit + k, h), None => d.get(obj, unit + k) };
                let got_s = match got { Ok(Some((Value::Scalar(s), _))) => match s.as_ref() { ScalarValue::Str(s) => s.to_string(), _ => "\u{fffc}".into() }, Ok(Some(_)) => "\u{fffc}".into(), _ => "<none>".into() };
                // an element may hold a multi-character string (put of a string): then the element's text must contain the char
                if !(got_s == ch.to_string() || (got_s.chars().count() > 1 && got_s.contains(ch))) {
                    oracle.push(format!("! C24 sig=get-index get(obj,{}) returned {} but that unit belongs to {}", unit + k, hx(got_s.as_bytes()), hx(ch.to_string().as_bytes())));
                    break 'outer;
                }
            }
            unit += cw;
        }
        for m in &marks {
            let ok = |p: usize| p == len || elems.iter().any(|e| e.start == p);
            if m.start > m.end || m.end > len || !ok(m.start) || !ok(m.end) {
                oracle.push(format!("! C24 sig=mark-index mark {}..{} is not on element boundaries of a text of length {}", m.start, m.end, len));
                break;
            }
        }
    }

    // ---------------- C25: the three reads describe the same marking
    // per unit position: marks()
    let total: usize = elems.iter().map(|e| e.width).sum();
    let n = total.max(len);
    let mut by_marks: Vec<MarkMap> = vec![MarkMap::new(); n];
    let mut overlap = false;
    for m in &marks {
        for p in m.start..m.end.min(n) {
            if by_marks[p].insert(hex::encode(m.name().as_bytes()), show_scalar(m.value())).is_some() { overlap = true; }
        }
        if matches!(m.value(), ScalarValue::Null) { oracle.push("! C25 sig=marks-null marks() reports a mark with a null value".to_string()); }
    }
    if overlap { oracle.push("! C25 sig=marks-overlap marks() reports two marks of one name over the same position".to_string()); }
    // per unit position: spans() (a span covers the consecutive elements whose strings concatenate to its text)
    if concat == text && etext == text {
        let mut by_spans: Vec<MarkMap> = vec![MarkMap::new(); n];
        let mut ei = 0;
        let mut ok = true;
        for s in &spans {
            let (t, ms) = match s { Span::Text { text, marks } => (text.clone(), marks.as_ref().map(|m| markset_map(m)).unwrap_or_default()), Span::Block(_) => ("\u{fffc}".to_string(), MarkMap::new()) };
            let mut acc = String::new();
            while acc.len() < t.len() && ei < elems.len() {
                acc.push_str(&elems[ei].text);
                if !matches!(s, Span::Block(_)) { for p in elems[ei].start..elems[ei].start + elems[ei].width { if p < n { by_spans[p] = ms.clone(); } } }
                else { for p in elems[ei].start..elems[ei].start + elems[ei].width { if p < n { by_spans[p] = by_marks[p].clone(); } } }
                ei += 1;
            }
            if acc != t { ok = false; break; }
        }
        if ok {
            if let Some(p) = (0..n).find(|p| by_spans[*p] != by_marks[*p]) {
                oracle.push(format!("! C25 sig=marks-vs-spans at position {} marks() gives {} but spans() gives {}", p, show_set(&by_marks[p]), show_set(&by_spans[p])));
            }
        }
    }
    // get_marks(i) for every unit index
    if let Some(p) = (0..len.min(n)).find(|p| gm[*p] != by_marks[*p]) {
        // D20: does get_marks index by element ordinal?
        let ordinal_ok = elems.iter().enumerate().all(|(k, e)| k > len || gm.get(k).map(|g| *g == by_marks[e.start]).unwrap_or(true));
        let multi = elems.iter().any(|e| e.width > 1);
        if ordinal_ok && multi {
            oracle.push(format!("! C25 sig=get_marks-element-ordinal get_marks(obj,{}) = {} but marks()/spans() give {} there (get_marks counts elements, not units)", p, show_set(&gm[p]), show_set(&by_marks[p])));
        } else {
            oracle.push(format!("! C25 sig=get_marks-mismatch get_marks(obj,{}) = {} but marks() gives {}", p, show_set(&gm[p]), show_set(&by_marks[p])));
        }
    }
    // Peritext reading of the mark ops in the changes: value = that of the greatest-id covering begin (null = unmarked)
    let sops = match heads { Some(h) => d.clone().fork_at(h).ok().map(|f| shadow_ops(&f)), None => Some(shadow_ops(d)) };
    if let Some(sops) = sops {
        let order = shadow_rga(&sops, &show_exid(obj));
        let mut bad: Option<String> = None;
        for (k, o) in order.iter().enumerate() {
            if matches!(o.kind, SKind::Begin { .. } | SKind::End { .. }) { continue; }
            if let Some(e) = elems.iter().find(|e| e.ids.iter().any(|i| elem_of(&sops, i).as_ref() == Some(&o.id))) {
                let want = peritext_at(&order, k);
                if e.start < n && by_marks[e.start] != want && bad.is_none() {
                    bad = Some(format!("! C25 sig=peritext-value at position {} marks() gives {} but the greatest-id covering marks give {}", e.start, show_set(&by_marks[e.start]), show_set(&want)));
                }
            }
        }
        if let Some(b) = bad { oracle.push(b); }
    }
    ReadOut { lines, oracle, cmp_lines }
}

/// expected resolution of an element cursor from the shadow (element order from the changes, visibility and
/// indexes from index-based reads)
/// → (expected index, element visible, the cursor's op is still one of the element's current values)
fn expected_cursor(d: &AutoCommit, obj: &ObjId, heads: Option<&[ChangeHash]>, enc: TextEncoding, op: &Id, before: bool) -> Option<(usize, bool, bool)> {
    let sops = match heads { Some(h) => shadow_ops(&d.clone().fork_at(h).ok()?), None => shadow_ops(d) };
    let elem = elem_of(&sops, op)?;
    // a zero-width element (an empty string put on a text index) is visible but no unit index reaches it: the
    // index walk below cannot see it, so this oracle has no expectation for such texts (the model still
    // predicts every cursor resolution)
    let objs = show_exid(obj);
    if sops.iter().any(|o| o.obj == objs && matches!(&o.kind, SKind::Str(t) if t.is_empty())) { return None; }
    let elems = elem_walk(d, obj, heads, enc);
    let value_op = elems.iter().any(|x| x.ids.contains(op));
    let index_of = |e: &Id| elems.iter().find(|x| x.ids.iter().any(|i| elem_of(&sops, i).as_ref() == Some(e))).map(|x| x.start);
    if let Some(i) = index_of(&elem) { return Some((i, true, value_op)); }
    let order = shadow_rga(&sops, &show_exid(obj));
    let k = order.iter().position(|o| o.id == elem)?;
    if !before {
        for o in &order[k + 1..] { if let Some(i) = index_of(&o.id) { return Some((i, false, value_op)); } }
        let len = match heads { Some(h) => d.length_at(obj, h), None => d.length(obj) };
        Some((len, false, value_op))
    } else {
        let mut cur = order[k].clone();
        loop {
            match &cur.elem_key {
                None => return Some((0, false, value_op)),
                Some(p) => {
                    if let Some(i) = index_of(p) { return Some((i, false, value_op)); }
                    cur = order.iter().find(|o| &o.id == p)?.clone();
                }
            }
        }
    }
}

pub fn exec(s: &mut CrdtSession, toks: &[&str], enc: TextEncoding) -> Vec<String> {
    match toks[0] {
        // crdt.rt.mark r obj start end expand name value   |   crdt.rt.unmark r obj start end expand name
        "crdt.rt.mark" | "crdt.rt.unmark" => {
            s.marked_texts.insert(toks[2].to_string());
            let d = s.replicas.get_mut(toks[1]).unwrap();
            let obj = parse_exid(toks[2]);
            let (start, end): (usize, usize) = (toks[3].parse().unwrap(), toks[4].parse().unwrap());
            let expand = parse_expand(toks[5]);
            let name = String::from_utf8(unhx(toks[6])).unwrap();
            let before = (d.pending_ops(), read_obj(d, &obj, None, enc, false).lines);
            let r = if toks[0] == "crdt.rt.mark" {
                d.mark(&obj, Mark::new(name, parse_scalar(toks[7]), start, end), expand)
            } else { d.unmark(&obj, &name, start, end, expand) };
            match r {
                Ok(()) => vec!["ok".into()],
                Err(e) => {
                    let mut res = vec![format!("err {}", rt_err(&e))];
                    let after = (d.pending_ops(), read_obj(d, &obj, None, enc, false).lines);
                    if after != before {
                        res.push(format!("! C03 sig=mark-error-leaves-op mark({},{}) returned an error but left {} new pending op(s)", start, end, after.0 as i64 - before.0 as i64));
                    }
                    res
                }
            }
        }
        // crdt.rt.splice r obj pos del hextext : text edit in a document with marks; expand oracle
        "crdt.rt.splice" => {
            let d = s.replicas.get_mut(toks[1]).unwrap();
            let obj = parse_exid(toks[2]);
            let pos: usize = toks[3].parse().unwrap();
            let del: isize = toks[4].parse().unwrap();
            let text = String::from_utf8(unhx(toks[5])).unwrap();
            // expand oracle (C25): exactly one mark op and no tombstone in the gap the text goes into.
            // `sides` = marking (Peritext reading of the changes) just before / just after that mark op.
            let mut gap_info: Option<(MarkMap, MarkMap, String, bool, bool)> = None;
            if del == 0 && !text.is_empty() && matches!(d.object_type(&obj), Ok(ObjType::Text)) && pos <= d.length(&obj) {
                let sops = shadow_ops(d);
                let elems = elem_walk(d, &obj, None, enc);
                if pos == d.length(&obj) || elems.iter().any(|e| e.start == pos) {
                    let order = shadow_rga(&sops, &show_exid(&obj));
                    let vis = |o: &SOp| elems.iter().find(|x| x.ids.iter().any(|i| elem_of(&sops, i).as_ref() == Some(&o.id))).map(|x| x.start);
                    // gap = ops between the visible element ending at pos and the visible element starting at pos
                    let lo = order.iter().rposition(|o| vis(o).map(|st| st < pos).unwrap_or(false)).map(|k| k + 1).unwrap_or(0);
                    let hi = order.iter().position(|o| vis(o).map(|st| st >= pos).unwrap_or(false)).unwrap_or(order.len());
                    if lo < hi && hi - lo == 1 && matches!(order[lo].kind, SKind::Begin { .. } | SKind::End { .. }) {
                        let m = &order[lo];
                        let (name, is_begin, ex) = match &m.kind {
                            SKind::Begin { name, expand, .. } => (name.clone(), true, *expand),
                            SKind::End { expand } => {
                                let b = (m.id.0 - 1, m.id.1.clone());
                                let nm = sops.iter().find(|o| o.id == b).and_then(|o| match &o.kind { SKind::Begin { name, .. } => Some(name.clone()), _ => None }).unwrap_or_default();
                                (nm, false, *expand)
                            }
                            _ => unreachable!(),
                        };
                        let before = peritext_at(&order, lo);
                        let after = peritext_at(&order, lo + 1);
                        gap_info = Some((before, after, name, is_begin, ex));
                    }
                }
            }
            let r = d.splice_text(&obj, pos, del, &text);
            let mut res = vec![match &r { Ok(_) => "ok".to_string(), Err(e) => format!("err {}", rt_err(e)) }];
            if let (Ok(_), Some((prev, next, name, is_begin, ex))) = (&r, gap_info) {
                // the new text belongs to the side of the boundary the expand flag names: a begin that expands
                // (or an end that does not) leaves the text after the mark op, otherwise before it
                let want = if is_begin == ex { next } else { prev };
                // marks of the document rebuilt from its bytes (independent of a stale mark index, finding F3)
                let ms = AutoCommit::load_with_options(&d.clone().save(), automerge::LoadOptions::new().text_encoding(enc)).ok()
                    .and_then(|l| l.marks(&obj).ok()).unwrap_or_default();
                let mut got = MarkMap::new();
                for m in &ms { if m.start <= pos && pos < m.end { got.insert(hex::encode(m.name().as_bytes()), show_scalar(m.value())); } }
                if got != want {
                    res.push(format!("! C25 sig=expand-boundary text inserted at {} next to the {} of mark {} (expand={}) reads marks {} but {} expected",
                        pos, if is_begin { "begin" } else { "end" }, name, ex, show_set(&got), show_set(&want)));
                } else { res.push("#expand-oracle-checked".to_string()); }
            }
            res
        }
        // crdt.rt.put r obj index scalar : overwrite the value of an element (the element stays)
        "crdt.rt.put" => {
            let d = s.replicas.get_mut(toks[1]).unwrap();
            match d.put(parse_exid(toks[2]), toks[3].parse::<usize>().unwrap(), parse_scalar(toks[4])) {
                Ok(()) => vec!["ok".into()],
                Err(e) => vec![format!("err {}", rt_err(&e))],
            }
        }
        // crdt.rt.block r obj pos : split_block
        "crdt.rt.block" => {
            let d = s.replicas.get_mut(toks[1]).unwrap();
            match d.split_block(parse_exid(toks[2]), toks[3].parse::<usize>().unwrap()) {
                Ok(id) => vec![format!("ok {}", show_exid(&id))],
                Err(e) => vec![format!("err {}", rt_err(&e))],
            }
        }
        // crdt.rt.join r obj pos : join_block (removes the block marker at pos)
        "crdt.rt.join" => {
            let d = s.replicas.get_mut(toks[1]).unwrap();
            match d.join_block(parse_exid(toks[2]), toks[3].parse::<usize>().unwrap()) {
                Ok(()) => vec!["ok".into()],
                Err(e) => vec![format!("err {}", rt_err(&e))],
            }
        }
        // crdt.rt.read r obj [heads]
        "crdt.rt.read" => {
            let d = s.replicas.get_mut(toks[1]).unwrap();
            let obj = parse_exid(toks[2]);
            let heads = toks.get(3).map(|h| parse_heads(h));
            let out = read_obj(d, &obj, heads.as_deref(), enc, true);
            let mut res = out.lines.clone();
            res.extend(out.oracle);
            if let Some(h) = &heads {
                // C25/C07: the same read on a document holding exactly the ancestors of the heads
                if let Ok(f) = d.clone().fork_at(h) {
                    let fr = read_obj(&f, &obj, None, enc, false);
                    if fr.lines != out.lines { res.push("! C25 sig=at-vs-fork rich-text read at heads differs from the same read on fork_at(heads)".to_string()); }
                }
            }
            res
        }
        // crdt.rt.same r1 r2 obj tag : replicas holding the same changes read the same rich text
        "crdt.rt.same" => {
            let obj = parse_exid(toks[3]);
            let hashes = |d: &AutoCommit| { let mut v: Vec<ChangeHash> = d.clone().get_changes(&[]).iter().map(|c| c.hash()).collect(); v.sort(); v };
            let a = s.replicas.get(toks[1]).unwrap();
            let b = s.replicas.get(toks[2]).unwrap();
            let mut res = vec!["ok".to_string()];
            if a.pending_ops() == 0 && b.pending_ops() == 0 && hashes(a) == hashes(b) {
                let ra = read_obj(a, &obj, None, enc, false).cmp_lines;
                let rb = read_obj(b, &obj, None, enc, false).cmp_lines;
                if ra != rb { res.push(format!("! C25 sig=marks-{} replicas {} and {} hold the same changes but read different rich text", toks[4], toks[1], toks[2])); }
                else { res.push("#same-checked".to_string()); }
            }
            res
        }
        // crdt.rt.cursor r obj pos move [heads]  (pos = index | s | e ; move = a | b)
        "crdt.rt.cursor" => {
            let d = s.replicas.get_mut(toks[1]).unwrap();
            let obj = parse_exid(toks[2]);
            let heads = toks.get(5).map(|h| parse_heads(h));
            let mv = if toks[4] == "b" { MoveCursor::Before } else { MoveCursor::After };
            let pos = match toks[3] { "s" => automerge::CursorPosition::Start, "e" => automerge::CursorPosition::End, i => automerge::CursorPosition::Index(i.parse().unwrap()) };
            let idx: Option<usize> = toks[3].parse().ok();
            match d.get_cursor_moving(&obj, pos, heads.as_deref(), mv) {
                Ok(c) => {
                    let mut res = vec![format!("ok {}", c)];
                    // C26 round trip
                    match d.get_cursor_position(&obj, &c, heads.as_deref()) {
                        Ok(p) => {
                            let want = match toks[3] {
                                "s" => Some(0),
                                "e" => Some(match &heads { Some(h) => d.length_at(&obj, h), None => d.length(&obj) }),
                                _ => {
                                    // an index inside a multi-unit element names that element: its start
                                    let elems = elem_walk(d, &obj, heads.as_deref(), enc);
                                    elems.iter().find(|e| e.start <= idx.unwrap() && idx.unwrap() < e.start + e.width).map(|e| e.start)
                                }
                            };
                            if want != Some(p) { res.push(format!("! C26 sig=cursor-roundtrip get_cursor_position(get_cursor({})) = {} (expected {:?})", toks[3], p, want)); }
                        }
                        Err(e) => res.push(format!("! C26 sig=cursor-roundtrip get_cursor_position(get_cursor({})) failed: {}", toks[3], rt_err(&e))),
                    }
                    // string and byte forms round-trip
                    if Cursor::try_from(c.to_string().as_str()).ok().as_ref() != Some(&c) || Cursor::try_from(c.to_bytes().as_slice()).ok().as_ref() != Some(&c) {
                        res.push("! C26 sig=cursor-serialise cursor does not survive its string / byte form".to_string());
                    }
                    res
                }
                Err(e) => vec![format!("err {}", rt_err(&e))],
            }
        }
        // crdt.rt.resolve r obj cursor [heads]
        "crdt.rt.resolve" => {
            let d = s.replicas.get_mut(toks[1]).unwrap();
            let obj = parse_exid(toks[2]);
            let heads = toks.get(4).map(|h| parse_heads(h));
            let c = match Cursor::try_from(toks[3]) { Ok(c) => c, Err(_) => return vec!["err cursorfmt".into()] };
            let r = match std::panic::catch_unwind(std::panic::AssertUnwindSafe(|| d.get_cursor_position(&obj, &c, heads.as_deref()))) {
                Ok(r) => r,
                Err(_) => {
                    // the indexed lookup and the walk of `seek_list_opid` disagree (debug assertion)
                    let mut res = vec!["panic".to_string()];
                    let before = toks[3].starts_with('-');
                    let exp = parse_id(toks[3].trim_start_matches('-')).and_then(|op| expected_cursor(d, &obj, heads.as_deref(), enc, &op, before));
                    let len = match &heads { Some(h) => d.length_at(&obj, h), None => d.length(&obj) };
                    let tail = parse_id(toks[3].trim_start_matches('-')).and_then(|op| expected_cursor(d, &obj, heads.as_deref(), enc, &op, false)).map(|(w, vis, _)| !vis && w == len).unwrap_or(false);
                    let sig = if tail { "deleted-tail-cursor-panic" } else if before && exp.is_some() { "before-walk-panic" } else { "cursor-resolve-panic" };
                    res.push(format!("! C26 sig={} get_cursor_position({}) panicked (debug assertion: indexed and walked seek_list_opid differ); expected {:?}", sig, toks[3], exp.map(|x| x.0)));
                    return res;
                }
            };
            let mut res = vec![match &r { Ok(p) => format!("ok {}", p), Err(e) => format!("err {}", rt_err(e)) }];
            // C26 tracking oracle (shadow)
            let before = toks[3].starts_with('-');
            if let Some(op) = parse_id(toks[3].trim_start_matches('-')) {
                if let Some((want, visible, op_current)) = expected_cursor(d, &obj, heads.as_deref(), enc, &op, before) {
                    let got = r.as_ref().ok().cloned();
                    if got != Some(want) {
                        let sig = if visible && before && !op_current { "before-cursor-value-op" }
                            else if visible { "cursor-tracks" }
                            else if got.is_none() { "deleted-tail-cursor-error" }
                            else if before { "before-walk-op-visibility" } else { "cursor-after-deleted" };
                        res.push(format!("! C26 sig={} cursor {} resolves to {} but its element {} {}{}", sig, toks[3], got.map(|x| x.to_string()).unwrap_or("an error".into()),
                            if visible { "is visible at index" } else { "is deleted; expected" }, want, if visible && !op_current { " (the value op the cursor names has been overwritten)" } else { "" }));
                    } else { res.push("#cursor-oracle-checked".to_string()); }
                }
            } else if toks[3] == "s" || toks[3] == "e" {
                let want = if toks[3] == "s" { 0 } else { match &heads { Some(h) => d.length_at(&obj, h), None => d.length(&obj) } };
                if r.as_ref().ok() != Some(&want) { res.push(format!("! C26 sig=cursor-start-end cursor {} resolves to {:?}, expected {}", toks[3], r.as_ref().ok(), want)); }
            }
            res
        }
        _ => vec!["unknown-cmd".into()],
    }
}

// ------------------------------------------------------------------ generator

/// exec_line + statistics on the oracles that were applicable
fn run(sess: &mut Session, line: &str, out: &mut Out) -> Vec<String> {
    let res = exec_line(sess, line, out);
    for l in &res {
        if let Some(t) = l.strip_prefix('#') { if t.ends_with("-checked") && !t.contains(' ') { out.count(&format!("oracle_{}", t.replace('-', "_"))); } }
        if let Some(t) = l.strip_prefix("! ") { let mut it = t.split(' '); let p = it.next().unwrap_or(""); let sg = it.next().unwrap_or(""); out.count(&format!("fail_{}_{}", p, sg.replace('=', "_").replace('-', "_"))); }
    }
    if res.first().map(|x| x.starts_with("err")).unwrap_or(false) { out.count(&format!("err_{}", line.split(' ').next().unwrap())); }
    res
}


const CHARS: [&str; 14] = ["a", "b", "c", "x", "é", "ß", "e\u{301}", "🙂", "𝄞", "👨\u{200d}👩\u{200d}👧", "🇫🇷", "z\u{308}\u{323}", "漢", "\u{301}"];
const NAMES: [&str; 3] = ["bold", "link", "é"];
const EXPANDS: [&str; 4] = ["before", "after", "both", "none"];

/// the splice line; under grapheme clusters it carries the segmentation (byte lengths of the clusters)
fn splice_line(who: &str, obj: &str, pos: usize, del: u64, t: &str, enc: TextEncoding) -> String {
    let seg = if enc == TextEncoding::GraphemeCluster && !t.is_empty() {
        unicode_segmentation::UnicodeSegmentation::graphemes(t, true).map(|g| g.len().to_string()).collect::<Vec<_>>().join(",")
    } else { "-".to_string() };
    format!("crdt.rt.splice {} {} {} {} {} {}", who, obj, pos, del, hx(t.as_bytes()), seg)
}

fn rand_text(r: &mut Rng) -> String {
    let n = r.range(1, 3);
    (0..n).map(|_| CHARS[r.below(CHARS.len() as u64) as usize]).collect()
}
fn rand_mark_value(r: &mut Rng) -> String {
    match r.below(6) { 0 => "b1".into(), 1 => "b0".into(), 2 => format!("s{}", hex::encode("x")), 3 => "i7".into(), 4 => format!("s{}", hex::encode("é")), _ => "n".into() }
}

struct G { names: Vec<String>, all_changes: Vec<String>, cursors: Vec<String>, obj: String, past_heads: Vec<String> }

fn commit(sess: &mut Session, out: &mut Out, g: &mut G, who: &str) {
    let res = run(sess, &format!("crdt.commit {}", who), out);
    if res[0] == "ok" {
        let d = sess.crdt.replicas.get_mut(who).unwrap();
        let c = d.get_last_local_change().unwrap();
        let h = hex::encode(c.hash().0);
        run(sess, &def_line(&c), out);
        run(sess, &format!("crdt.local {} {}", who, h), out);
        g.all_changes.push(h);
        let d = sess.crdt.replicas.get_mut(who).unwrap();
        let mut hs: Vec<String> = d.get_heads().iter().map(|h| hex::encode(h.0)).collect();
        hs.sort();
        g.past_heads.push(format!("{}:{}", who, hs.join(",")));
    }
}

/// unit positions that are element boundaries (std-computed from the text), plus mark boundaries
fn boundaries(sess: &Session, who: &str, obj: &str, enc: TextEncoding) -> (Vec<usize>, Vec<usize>, usize) {
    let d = sess.crdt.replicas.get(who).unwrap();
    let o = parse_exid(obj);
    let elems = elem_walk(d, &o, None, enc);
    let len = d.length(&o);
    let mut b: Vec<usize> = elems.iter().map(|e| e.start).collect();
    b.push(len);
    let mut mb = vec![];
    for m in d.marks(&o).unwrap_or_default() { mb.push(m.start); mb.push(m.end); }
    (b, mb, len)
}

pub fn generate(r: &mut Rng, opts: &BTreeMap<String, String>, sess: &mut Session, out: &mut Out) {
    let encs = ["cp", "utf8", "utf16", "gc"];
    let enc_s = match opts.get("enc") { Some(e) => e.as_str(), None => encs[r.below(4) as usize] };
    let enc = super::crdt::parse_enc(enc_s);
    out.count(&format!("enc_{}", enc_s));
    let nrep = r.range(2, 3) as usize;
    let mut actors: Vec<Vec<u8>> = (0..6).map(|i| vec![0x10 * (6 - i as u8) + r.below(8) as u8, r.next() as u8]).collect();
    if r.chance(1, 2) { actors.reverse(); }
    run(sess, &format!("crdt.new r0 {} {}", enc_s, hex::encode(&actors[0])), out);
    let res = run(sess, "crdt.putobj r0 _ m74 T", out);
    let obj = res[0].strip_prefix("ok ").unwrap_or("_").to_string();
    let mut g = G { names: vec!["r0".into()], all_changes: vec![], cursors: vec![], obj: obj.clone(), past_heads: vec![] };
    let init: String = (0..r.range(2, 6)).map(|_| CHARS[r.below(CHARS.len() as u64) as usize]).collect();
    run(sess, &splice_line("r0", &obj, 0, 0, &init, enc), out);
    commit(sess, out, &mut g, "r0");
    let mut next_actor = 1;

    // expand scenario: one mark, one insertion at each boundary, for a random mode (all four over the cases)
    if r.chance(1, 3) {
        let (b, _, _) = boundaries(sess, "r0", &obj, enc);
        if b.len() >= 3 {
            let i = r.below(b.len() as u64 - 1) as usize;
            let j = r.range(i as u64 + 1, b.len() as u64 - 1) as usize;
            let mode = EXPANDS[r.below(4) as usize];
            run(sess, &format!("crdt.rt.mark r0 {} {} {} {} {} {}", obj, b[i], b[j], mode, hex::encode("bold"), "b1"), out);
            out.count(&format!("expand_scenario_{}", mode));
            let t = rand_text(r);
            let w = width(enc, &t);
            if r.chance(1, 2) {
                run(sess, &splice_line("r0", &obj, b[j], 0, &t, enc), out);
                run(sess, &splice_line("r0", &obj, b[i], 0, "q", enc), out);
            } else {
                run(sess, &splice_line("r0", &obj, b[i], 0, &t, enc), out);
                let _ = w;
                let (_, mb, _) = boundaries(sess, "r0", &obj, enc);
                if let Some(e) = mb.iter().max() { run(sess, &splice_line("r0", &obj, *e, 0, "q", enc), out); }
            }
            run(sess, &format!("crdt.rt.read r0 {}", obj), out);
            commit(sess, out, &mut g, "r0");
        }
    }

    let steps = r.range(8, 24);
    for _ in 0..steps {
        let who = g.names[r.below(g.names.len() as u64) as usize].clone();
        let k = r.below(20);
        match k {
            0 | 1 if g.names.len() < nrep => {
                commit(sess, out, &mut g, &who); // fork() and apply_changes() close the open transaction
                let n = format!("r{}", g.names.len());
                next_actor += 1;
                run(sess, &format!("crdt.fork {} {} {}", who, n, hex::encode(&actors[next_actor - 1])), out);
                g.names.push(n);
                out.count("forks");
            }
            2 | 3 if !g.all_changes.is_empty() => {
                let mut all = g.all_changes.clone();
                for i in (1..all.len()).rev() { let j = r.below(i as u64 + 1) as usize; all.swap(i, j); }
                if r.chance(1, 3) { all.truncate(r.range(1, all.len() as u64) as usize); }
                commit(sess, out, &mut g, &who);
                run(sess, &format!("crdt.apply {} {}", who, all.join(",")), out);
                out.count("merges");
            }
            4 | 5 | 6 | 7 | 8 => {
                // text edit: insert (often exactly at a mark boundary) and / or delete
                let (b, mb, len) = boundaries(sess, &who, &obj, enc);
                let pos = if !mb.is_empty() && r.chance(1, 2) { out.count("insert_at_mark_boundary"); mb[r.below(mb.len() as u64) as usize] }
                    else if r.chance(1, 20) { len + 1 + r.below(2) as usize }
                    else if r.chance(1, 12) { r.below(len as u64 + 1) as usize }
                    else { b[r.below(b.len() as u64) as usize] };
                let del = if len > pos && r.chance(1, 3) { r.range(1, ((len - pos) as u64).min(4)) } else { 0 };
                let t = if del > 0 && r.chance(1, 2) { String::new() } else { rand_text(r) };
                run(sess, &splice_line(&who, &obj, pos, del, &t, enc), out);
                out.count("edit_splice");
                if r.chance(2, 3) { commit(sess, out, &mut g, &who); }
            }
            9 | 10 | 11 | 12 => {
                let (b, mb, len) = boundaries(sess, &who, &obj, enc);
                let pick = |r: &mut Rng| -> usize {
                    if !mb.is_empty() && r.chance(1, 3) { mb[r.below(mb.len() as u64) as usize] }
                    else if r.chance(1, 15) { len + 1 + r.below(3) as usize }
                    else if r.chance(1, 10) { r.below(len as u64 + 1) as usize }
                    else { b[r.below(b.len() as u64) as usize] }
                };
                let (mut s0, mut e0) = (pick(r), pick(r));
                if s0 > e0 && !r.chance(1, 10) { std::mem::swap(&mut s0, &mut e0); }
                let ex = EXPANDS[r.below(4) as usize];
                let name = hex::encode(NAMES[r.below(3) as usize]);
                let v = rand_mark_value(r);
                if v == "n" && r.chance(1, 2) {
                    run(sess, &format!("crdt.rt.unmark {} {} {} {} {} {}", who, obj, s0, e0, ex, name), out);
                } else {
                    run(sess, &format!("crdt.rt.mark {} {} {} {} {} {} {}", who, obj, s0, e0, ex, name, v), out);
                }
                out.count(&format!("mark_{}", ex));
                if v == "n" { out.count("mark_null"); }
                if r.chance(2, 3) { commit(sess, out, &mut g, &who); }
            }
            13 => {
                // overwrite the value of an element (the element stays, its value op changes)
                let (b, _, len) = boundaries(sess, &who, &obj, enc);
                if len > 0 {
                    let pos = b[r.below(b.len() as u64 - 1) as usize];
                    // (an EMPTY string is a zero-width text element: no unit index reaches it, spans / marks must skip it)
                    let v = match r.below(5) { 0 => format!("s{}", hex::encode("Z")), 1 => format!("s{}", hex::encode("é")), 2 => "i5".to_string(), 3 => { out.count("text_put_empty_string"); "s".to_string() } _ => format!("s{}", hex::encode("🙂")) };
                    run(sess, &format!("crdt.rt.put {} {} {} {}", who, obj, pos, v), out);
                    out.count("edit_put");
                    if r.chance(2, 3) { commit(sess, out, &mut g, &who); }
                }
            }
            14 if r.chance(1, 3) => {
                let (b, _, _) = boundaries(sess, &who, &obj, enc);
                run(sess, &format!("crdt.rt.block {} {} {}", who, obj, b[r.below(b.len() as u64) as usize]), out);
                out.count("edit_block");
                commit(sess, out, &mut g, &who);
            }
            15 | 16 | 17 => {
                let (b, _, len) = boundaries(sess, &who, &obj, enc);
                let pos = match r.below(12) { 0 => "s".to_string(), 1 => "e".to_string(), 2 => format!("{}", r.below(len as u64 + 2)), _ => format!("{}", b[r.below(b.len() as u64) as usize]) };
                let mv = if r.chance(1, 2) { "a" } else { "b" };
                let res = run(sess, &format!("crdt.rt.cursor {} {} {} {}", who, obj, pos, mv), out);
                if let Some(c) = res[0].strip_prefix("ok ") { if !g.cursors.contains(&c.to_string()) && g.cursors.len() < 8 { g.cursors.push(c.to_string()); } }
                out.count(&format!("cursor_{}", mv));
            }
            _ => {
                commit(sess, out, &mut g, &who);
            }
        }
        // observe: rich-text read and every cursor taken so far, on the acting replica
        run(sess, &format!("crdt.rt.read {} {}", who, obj), out);
        out.count("reads");
        for c in g.cursors.clone() {
            run(sess, &format!("crdt.rt.resolve {} {} {}", who, obj, c), out);
            out.count("resolves");
        }
    }
    // close transactions, deliver everything to everybody (different orders), compare
    for n in g.names.clone() { commit(sess, out, &mut g, &n); }
    for n in g.names.clone() {
        let mut all = g.all_changes.clone();
        for i in (1..all.len()).rev() { let j = r.below(i as u64 + 1) as usize; all.swap(i, j); }
        if !all.is_empty() { run(sess, &format!("crdt.apply {} {}", n, all.join(",")), out); }
        run(sess, &format!("crdt.rt.read {} {}", n, obj), out);
        for c in g.cursors.clone() { run(sess, &format!("crdt.rt.resolve {} {} {}", n, obj, c), out); }
    }
    for i in 1..g.names.len() { run(sess, &format!("crdt.rt.same r0 {} {} merge", g.names[i], obj), out); }
    // save / load
    let who = g.names[r.below(g.names.len() as u64) as usize].clone();
    run(sess, &format!("crdt.saveload {} l {}", who, r.below(2)), out);
    run(sess, &format!("crdt.rt.read l {}", obj), out);
    run(sess, &format!("crdt.rt.same {} l {} saveload", who, obj), out);
    for c in g.cursors.clone() { run(sess, &format!("crdt.rt.resolve l {} {}", obj, c), out); }
    // historical reads and cursor resolution at past heads of r0's history
    let own: Vec<String> = sess.crdt.replicas.get_mut("r0").unwrap().get_changes(&[]).iter().map(|c| hex::encode(c.hash().0)).collect();
    for _ in 0..3 {
        if g.past_heads.is_empty() { break; }
        let ph = g.past_heads[r.below(g.past_heads.len() as u64) as usize].clone();
        let hs = ph.split_once(':').unwrap().1.to_string();
        if hs.is_empty() || !hs.split(',').all(|h| own.contains(&h.to_string())) { continue; }
        run(sess, &format!("crdt.rt.read r0 {} {}", obj, hs), out);
        out.count("reads_at_heads");
        for c in g.cursors.clone() { run(sess, &format!("crdt.rt.resolve r0 {} {} {}", obj, c, hs), out); out.count("resolves_at_heads"); }
        let (b, _, _) = boundaries(sess, "r0", &obj, enc);
        let _ = b;
        if r.chance(1, 2) {
            let d = sess.crdt.replicas.get("r0").unwrap();
            let l = d.length_at(parse_exid(&obj), &parse_heads(&hs));
            if l > 0 { run(sess, &format!("crdt.rt.cursor r0 {} {} {} {}", obj, r.below(l as u64), if r.chance(1, 2) { "a" } else { "b" }, hs), out); }
        }
    }
}
