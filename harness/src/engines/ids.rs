//! Engine `ids` (C19, and the small-decoder part of C15): identifier / cursor / actor / hash codecs,
//! `import`, resolution of a decoded id or cursor inside a document, `sync::State` and
//! `sync::Message` byte codecs — every command is stateless (a document is described by its actor
//! list and rebuilt), so a trace replays from its `>` lines alone.
//!
//! Plus the exploration-only stream `ids.deep <entry> <bytes>` for the deep decoders (load,
//! load_incremental, Change::from_bytes, Bundle, rescue, receive of a decoded sync message): the model
//! answers `skip`; a panic is reported as `! C15 sig=panic-<entry>`.
use super::{hx, unhx};
use crate::{exec_line, rng::Rng, Out, Session};
use automerge::sync::{self, SyncDoc};
use automerge::{
    transaction::Transactable, ActorId, AutoCommit, Automerge, AutomergeError, Change, ChangeHash, Cursor, ObjId,
    ObjType, ReadDoc, ROOT,
};
use std::collections::BTreeMap;
use std::panic::{catch_unwind, AssertUnwindSafe};

// ---------------------------------------------------------------- canonical text

fn show_exid_full(id: &ObjId) -> String {
    match id {
        ObjId::Root => format!("_root b={}", hx(&id.to_bytes())),
        ObjId::Id(_, _, idx) => format!("{} idx={} b={}", id, idx, hx(&id.to_bytes())),
    }
}
fn show_cursor_full(c: &Cursor) -> String { format!("{} b={}", c, hx(&c.to_bytes())) }

fn objid_err(e: &automerge::ObjIdFromBytesError) -> &'static str {
    use automerge::ObjIdFromBytesError as E;
    match e {
        E::NoVersion => "noVersion",
        E::InvalidVersion(_) => "invalidVersion",
        E::InvalidType(_) => "invalidType",
        E::ParseActorLen(_) => "parseActorLen",
        E::ParseActor => "parseActor",
        E::ParseCounter(_) => "parseCounter",
        E::ParseActorIdxHint(_) => "parseActorIdxHint",
    }
}
fn am_err(e: &AutomergeError) -> &'static str {
    match e {
        AutomergeError::InvalidCursorFormat => "cursorFormat",
        AutomergeError::InvalidCursor(_) => "invalidCursor",
        AutomergeError::InvalidObjIdFormat(_) => "objIdFormat",
        AutomergeError::InvalidObjId(_) => "objId",
        AutomergeError::NotAnObject => "notAnObject",
        _ => "other",
    }
}
fn utf8(tok: &str) -> String { String::from_utf8(unhx(tok)).expect("utf8") }
fn show_hashes(hs: &[ChangeHash]) -> String {
    if hs.is_empty() { "-".into() } else { hs.iter().map(|h| hex::encode(h.0)).collect::<Vec<_>>().join(",") }
}
fn parse_hashes(s: &str) -> Vec<ChangeHash> {
    if s == "-" { return vec![]; }
    s.split(',').map(|h| ChangeHash::try_from(unhx(h).as_slice()).expect("hash")).collect()
}
fn objtype(t: ObjType) -> &'static str {
    match t { ObjType::Map => "M", ObjType::List => "L", ObjType::Text => "T", ObjType::Table => "B" }
}

// ---------------------------------------------------------------- documents described by actor lists
//
// doc(base, others): `base` creates list "l" (1@base) with elements "b0","b1","b2" (2@,3@,4@base) in one
// change; every other actor forks THAT document and, concurrently with the rest, makes one change:
// 5@a = map "m<hex a>", 6@a = insert "e<hex a>" at index 0 of the list, 7@a = put(5@a,"who",<hex a>).
// Replicas built from different `others` share the base objects and number their actors differently.

fn parse_actors(s: &str) -> Vec<Vec<u8>> { if s == "-" { vec![] } else { s.split(',').map(unhx).collect() } }

fn build_doc(base: &[u8], others: &[Vec<u8>]) -> Option<AutoCommit> {
    let mut seen = vec![base.to_vec()];
    for o in others { if seen.contains(o) { return None; } seen.push(o.clone()); }
    let mut d = AutoCommit::new().with_actor(ActorId::from(base));
    let l = d.put_object(ROOT, "l", ObjType::List).unwrap();
    for i in 0..3 { d.insert(&l, i, format!("b{}", i)).unwrap(); }
    d.commit_with(automerge::transaction::CommitOptions::default().with_time(0));
    let mut start = d.fork();
    for a in others {
        let mut f = start.fork().with_actor(ActorId::from(a.as_slice()));
        let h = hex::encode(a);
        let m = f.put_object(ROOT, format!("m{}", h), ObjType::Map).unwrap();
        f.insert(&l, 0, format!("e{}", h)).unwrap();
        f.put(&m, "who", h.clone()).unwrap();
        f.commit_with(automerge::transaction::CommitOptions::default().with_time(0));
        d.merge(&mut f).unwrap();
    }
    Some(d)
}
fn list_of(d: &AutoCommit) -> ObjId { d.get(ROOT, "l").unwrap().unwrap().1 }
fn elem_value(d: &AutoCommit, l: &ObjId, i: usize) -> Option<String> {
    d.get(l, i).ok().flatten().map(|(v, _)| v.to_str().unwrap_or("?").to_string())
}
/// what a (decoded) object id names in `d`: its type, and the marker stored in a map object
fn describe_obj(d: &AutoCommit, id: &ObjId) -> String {
    match d.object_type(id) {
        Ok(t) => {
            let who = if t == ObjType::Map { d.get(id, "who").ok().flatten().map(|(v, _)| v.to_str().unwrap_or("?").to_string()) } else { None };
            format!("ok {} who={} len={}", objtype(t), who.unwrap_or_else(|| "-".into()), d.length(id))
        }
        Err(e) => format!("err {}", am_err(&e)),
    }
}

// ---------------------------------------------------------------- sync message text form

fn bloom_fields(b: &sync::BloomFilter) -> String {
    let v = serde_json::to_value(b).expect("bloom json");
    let bits: Vec<u8> = v["bits"].as_array().unwrap().iter().map(|x| x.as_u64().unwrap() as u8).collect();
    format!("{}.{}.{}.{}", v["num_entries"], v["num_bits_per_entry"], v["num_probes"], hx(&bits))
}
fn bloom_probes(b: &sync::BloomFilter) -> u64 { serde_json::to_value(b).unwrap()["num_probes"].as_u64().unwrap() }
fn flags_byte(f: &sync::MessageFlags) -> u8 { (0..8).fold(0u8, |acc, k| if f.contains(1 << k) { acc | (1 << k) } else { acc }) }
fn show_msg(m: &sync::Message) -> String {
    let haves: Vec<String> = m.have.iter().map(|h| format!("{}/{}", show_hashes(&h.last_sync), bloom_fields(&h.bloom))).collect();
    let chs: Vec<String> = m.changes.iter().map(hx).collect();
    format!("v={} heads={} need={} have={} changes={} flags={}",
        match m.version { sync::MessageVersion::V1 => 1, sync::MessageVersion::V2 => 2 },
        show_hashes(&m.heads), show_hashes(&m.need),
        if haves.is_empty() { "_".into() } else { haves.join(";") },
        if chs.is_empty() { "_".into() } else { chs.join(";") },
        match &m.flags { None => "none".to_string(), Some(f) => flags_byte(f).to_string() })
}
fn read_msg_err(e: &sync::ReadMessageError) -> &'static str {
    match e {
        sync::ReadMessageError::WrongType { .. } => "wrongType",
        sync::ReadMessageError::NotEnoughInput => "notEnoughInput",
        _ => "parse",
    }
}
fn state_err(e: &sync::DecodeStateError) -> &'static str {
    match e {
        sync::DecodeStateError::WrongType { .. } => "wrongType",
        sync::DecodeStateError::NotEnoughInput => "notEnoughInput",
        _ => "parse",
    }
}
fn show_state(s: &sync::State) -> String {
    format!("shared={} last_sent={} their_heads={} their_need={} their_have={} sent={} in_flight={} have_responded={} caps={} ro={} pro={} reset={}",
        show_hashes(&s.shared_heads), s.last_sent_heads.len(),
        s.their_heads.as_ref().map(|h| format!("some{}", h.len())).unwrap_or("none".into()),
        s.their_need.as_ref().map(|h| format!("some{}", h.len())).unwrap_or("none".into()),
        s.their_have.as_ref().map(|h| format!("some{}", h.len())).unwrap_or("none".into()),
        s.sent_hashes.len(), s.in_flight, s.have_responded,
        s.their_capabilities.as_ref().map(|h| format!("some{}", h.len())).unwrap_or("none".into()),
        s.read_only, s.peer_read_only, s.needs_reset)
}
/// run an encoder that contains `debug_assert!(hashes sorted)`; `None` = that assertion fired
fn guarded_encode<F: FnOnce() -> Vec<u8>>(f: F) -> Option<Vec<u8>> {
    match catch_unwind(AssertUnwindSafe(f)) {
        Ok(b) => Some(b),
        Err(e) => {
            let msg = e.downcast_ref::<String>().cloned().or_else(|| e.downcast_ref::<&str>().map(|s| s.to_string())).unwrap_or_default();
            if msg.contains("hashes were not sorted") { None } else { std::panic::resume_unwind(e) }
        }
    }
}
fn parse_msg_tokens(toks: &[&str]) -> Option<sync::Message> {
    // v heads need haves changes flags
    let version = if toks[0] == "1" { sync::MessageVersion::V1 } else { sync::MessageVersion::V2 };
    let heads = parse_hashes(toks[1]);
    let need = parse_hashes(toks[2]);
    let mut have = vec![];
    if toks[3] != "_" {
        for e in toks[3].split(';') {
            let (hs, b) = e.split_once('/').expect("have");
            let bloom = sync::BloomFilter::try_from(unhx(b).as_slice()).ok()?;
            have.push(sync::Have { last_sync: parse_hashes(hs), bloom });
        }
    }
    let changes: Vec<Vec<u8>> = if toks[4] == "_" { vec![] } else { toks[4].split(';').map(unhx).collect() };
    let flags = if toks[5] == "none" { None } else {
        let mut f = sync::MessageFlags::new();
        f.set(toks[5].parse::<u8>().expect("flags"));
        Some(f)
    };
    Some(sync::Message { heads, need, have, changes: sync::ChunkList::from(changes), flags, version })
}

// ---------------------------------------------------------------- exec

thread_local! { static LAST_PANIC_AT: std::cell::RefCell<String> = const { std::cell::RefCell::new(String::new()) }; }

fn deep(entry: &str, data: Vec<u8>) -> Vec<String> {
    let e = entry.to_string();
    // record where a panic happens (the harness's global hook is silent); restored below
    let prev = std::panic::take_hook();
    std::panic::set_hook(Box::new(|info| {
        let at = info.location().map(|l| format!("{}:{}", l.file().rsplit("/rust/").next().unwrap_or(l.file()), l.line())).unwrap_or_default();
        LAST_PANIC_AT.with(|c| *c.borrow_mut() = at);
    }));
    let r = deep_inner(e, data);
    std::panic::set_hook(prev);
    match r {
        Ok(s) => vec![s.to_string()],
        Err(e) => {
            let msg = e.downcast_ref::<String>().cloned().or_else(|| e.downcast_ref::<&str>().map(|s| s.to_string())).unwrap_or_default();
            let at = LAST_PANIC_AT.with(|c| c.borrow().clone());
            vec!["panicked".into(), format!("! C15 sig=panic-{} at {} : {}", entry, at, msg.replace('\n', " ").chars().take(160).collect::<String>())]
        }
    }
}

fn deep_inner(e: String, data: Vec<u8>) -> Result<&'static str, Box<dyn std::any::Any + Send>> {
    catch_unwind(AssertUnwindSafe(move || -> &'static str {
        match e.as_str() {
            "load" => match Automerge::load(&data) { Ok(d) => { let _ = d.hydrate(None); let _ = d.get_changes(&[]); let _ = d.save(); "ok" } Err(_) => "err" },
            "load_unverified" => match Automerge::load_with_options(&data, automerge::LoadOptions::new().verification_mode(automerge::VerificationMode::DontCheck)) {
                Ok(d) => { let _ = d.hydrate(None); "ok" } Err(_) => "err" },
            "load_inc" => { let mut d = Automerge::new(); match d.load_incremental(&data) { Ok(_) => { let _ = d.hydrate(None); "ok" } Err(_) => "err" } }
            "change" => match Change::from_bytes(data) { Ok(c) => { let _ = c.decode(); "ok" } Err(_) => "err" },
            "bundle" => match automerge::Bundle::try_from(data.as_slice()) { Ok(b) => { let _ = b.to_changes(); "ok" } Err(_) => "err" },
            "rescue" => match Automerge::rescue(&data) { Ok(_) => "ok", Err(_) => "err" },
            "recv" => match sync::Message::decode(&data) {
                Ok(m) => {
                    // a decoded filter with an absurd probe count makes the reply allocate 4·num_probes bytes
                    // (finding D2b, property C17): not re-triggered here, it aborts the process
                    if m.have.iter().any(|h| bloom_probes(&h.bloom) > 100_000) { return "ok-decoded-only"; }
                    let mut d = Automerge::new();
                    let mut tx = d.transaction(); tx.put(ROOT, "k", 1).unwrap(); tx.commit();
                    let mut st = sync::State::new();
                    let r = d.receive_sync_message(&mut st, m);
                    let _ = d.generate_sync_message(&mut st);
                    if r.is_ok() { "ok" } else { "err" }
                }
                Err(_) => "err",
            },
            _ => "unknown-entry",
        }
    }))
}

/// the worker process of the deep-decoder stream: `amharness exec` under an address-space limit; it
/// answers every `ids.deepchild` line on its (unbuffered) stderr with one `@@…` line
struct Worker {
    child: std::process::Child,
    stdin: std::process::ChildStdin,
    rx: std::sync::mpsc::Receiver<String>,
}
thread_local! { static WORKER: std::cell::RefCell<Option<Worker>> = const { std::cell::RefCell::new(None) }; }

fn spawn_worker() -> Worker {
    use std::io::BufRead;
    use std::process::{Command, Stdio};
    let exe = std::env::current_exe().expect("exe");
    let mut child = Command::new("sh")
        .arg("-c")
        .arg(format!("ulimit -v 2000000; exec '{}' exec", exe.display()))
        .env("IDS_DEEP_WORKER", "1")
        .stdin(Stdio::piped()).stdout(Stdio::null()).stderr(Stdio::piped())
        .spawn().expect("spawn worker");
    let stdin = child.stdin.take().unwrap();
    let stderr = child.stderr.take().unwrap();
    let (tx, rx) = std::sync::mpsc::channel();
    std::thread::spawn(move || {
        for l in std::io::BufReader::new(stderr).lines() {
            match l { Ok(l) => { if tx.send(l).is_err() { break; } } Err(_) => break }
        }
    });
    Worker { child, stdin, rx }
}

fn deep_in_child(entry: &str, hexdata: &str) -> Vec<String> {
    use std::io::Write;
    WORKER.with(|w| {
        let mut w = w.borrow_mut();
        if w.is_none() { *w = Some(spawn_worker()); }
        let wk = w.as_mut().unwrap();
        let sent = wk.stdin.write_all(format!("> ids.deepchild {} {}\n", entry, hexdata).as_bytes()).and_then(|_| wk.stdin.flush());
        let mut noise: Vec<String> = vec![];
        let deadline = std::time::Instant::now() + std::time::Duration::from_secs(10);
        let verdict = if sent.is_err() { Err("died") } else {
            loop {
                let left = deadline.saturating_duration_since(std::time::Instant::now());
                match wk.rx.recv_timeout(left) {
                    Ok(l) => { if let Some(r) = l.strip_prefix("@@") { break Ok(r.to_string()); } else { noise.push(l); } }
                    Err(std::sync::mpsc::RecvTimeoutError::Timeout) => break Err("hung"),
                    Err(std::sync::mpsc::RecvTimeoutError::Disconnected) => break Err("died"),
                }
            }
        };
        match verdict {
            Ok(r) => r.split("@@").filter(|x| !x.is_empty()).map(|x| x.to_string()).collect(),
            Err(kind) => {
                let mut wk = w.take().unwrap();
                let _ = wk.child.kill();
                let _ = wk.child.wait();
                let first = noise.first().cloned().unwrap_or_default().chars().take(120).collect::<String>();
                let frame = noise.iter().filter(|l| l.contains("automerge::") || l.contains("hexane::")).next().map(|l| l.trim().to_string()).unwrap_or_default().chars().take(120).collect::<String>();
                if kind == "hung" { vec!["hung".into(), format!("! C15 sig=hang-{} no answer within 10 s (CPU or memory blow-up)", entry)] }
                else { vec!["aborted".into(), format!("! C15 sig=abort-{} worker process died: {} [{}]", entry, first, frame)] }
            }
        }
    })
}

/// in the worker: run the decoder and answer on stderr (stdout of `exec` is block-buffered)
fn deep_child(entry: &str, data: Vec<u8>) -> Vec<String> {
    let res = deep(entry, data);
    if std::env::var("IDS_DEEP_WORKER").is_ok() { eprintln!("@@{}", res.join("@@")); }
    res
}

pub fn exec(toks: &[&str]) -> Vec<String> {
    match toks[0] {
        // ---- ExId
        "ids.exid_bytes" => match ObjId::try_from(unhx(toks[1]).as_slice()) {
            Ok(id) => vec![format!("ok {}", show_exid_full(&id))],
            Err(e) => vec![format!("err {}", objid_err(&e))],
        },
        // ids.exid_enc <ctr> <actor> <idx> | ids.exid_enc root : to_bytes, and the round-trip oracle
        "ids.exid_enc" => {
            let id = if toks[1] == "root" { ROOT } else { ObjId::Id(toks[1].parse().unwrap(), ActorId::from(unhx(toks[2])), toks[3].parse().unwrap()) };
            let b = id.to_bytes();
            let mut res = vec![format!("ok {} s={}", hx(&b), id)];
            match ObjId::try_from(b.as_slice()) {
                Ok(back) => {
                    let idx_same = match (&id, &back) { (ObjId::Id(_, _, i), ObjId::Id(_, _, j)) => i == j, (ObjId::Root, ObjId::Root) => true, _ => false };
                    if back != id || !idx_same { res.push(format!("! C19 sig=exid-bytes-roundtrip {} decoded as {}", show_exid_full(&id), show_exid_full(&back))); }
                }
                Err(e) => res.push(format!("! C19 sig=exid-bytes-roundtrip own bytes rejected: {}", e)),
            }
            res
        }
        // ---- Cursor
        "ids.cursor_bytes" => match Cursor::try_from(unhx(toks[1]).as_slice()) {
            Ok(c) => vec![format!("ok {}", show_cursor_full(&c))],
            Err(e) => vec![format!("err {}", am_err(&e))],
        },
        "ids.cursor_str" => {
            let s = utf8(toks[1]);
            match Cursor::try_from(s.as_str()) {
                Ok(c) => {
                    let mut res = vec![format!("ok {}", show_cursor_full(&c))];
                    // round-trip oracle on every accepted value: Display→from_str and to_bytes→try_from give it back
                    if Cursor::try_from(c.to_string().as_str()).ok().as_ref() != Some(&c) { res.push(format!("! C19 sig=cursor-string-roundtrip {}", c)); }
                    if Cursor::try_from(c.to_bytes().as_slice()).ok().as_ref() != Some(&c) { res.push(format!("! C19 sig=cursor-bytes-roundtrip {}", c)); }
                    res
                }
                Err(e) => vec![format!("err {}", am_err(&e))],
            }
        }
        // ---- ActorId / ChangeHash
        "ids.actor_str" => {
            let s = utf8(toks[1]);
            match ActorId::try_from(s.as_str()) {
                Ok(a) => {
                    let mut res = vec![format!("ok {}", hx(a.to_bytes()))];
                    if s.parse::<ActorId>().ok().as_ref() != Some(&a) { res.push("! C19 sig=actor-fromstr-differs".into()); }
                    if ActorId::try_from(a.to_string().as_str()).ok().as_ref() != Some(&a) { res.push(format!("! C19 sig=actor-hex-roundtrip {}", a)); }
                    res
                }
                Err(_) => vec!["err actorId".into()],
            }
        }
        "ids.hash_str" => {
            let s = utf8(toks[1]);
            match s.parse::<ChangeHash>() {
                Ok(h) => {
                    let mut res = vec![format!("ok {}", hex::encode(h.0))];
                    if h.to_string().parse::<ChangeHash>().ok() != Some(h) { res.push(format!("! C19 sig=hash-hex-roundtrip {}", h)); }
                    res
                }
                Err(automerge::ParseChangeHashError::HexDecode(_)) => vec!["err hashHex".into()],
                Err(automerge::ParseChangeHashError::IncorrectLength { .. }) => vec!["err hashLength".into()],
            }
        }
        "ids.hash_bytes" => match ChangeHash::try_from(unhx(toks[1]).as_slice()) {
            Ok(h) => vec![format!("ok {}", hex::encode(h.0))],
            Err(_) => vec!["err hashSlice".into()],
        },
        // ---- import / resolution inside a document: <base> <others> <payload>
        "ids.import" => {
            let Some(d) = build_doc(&unhx(toks[1]), &parse_actors(toks[2])) else { return vec!["bad-input".into()] };
            let s = utf8(toks[3]);
            let a = match d.import_obj(&s) { Ok(id) => format!("ok {}", show_exid_full(&id)), Err(e) => format!("err {}", am_err(&e)) };
            let b = match d.import(&s) { Ok((id, t)) => format!("ok {} {}", id, objtype(t)), Err(e) => format!("err {}", am_err(&e)) };
            vec![a, b]
        }
        "ids.res_exid" => {
            let Some(d) = build_doc(&unhx(toks[1]), &parse_actors(toks[2])) else { return vec!["bad-input".into()] };
            match ObjId::try_from(unhx(toks[3]).as_slice()) {
                Ok(id) => vec![describe_obj(&d, &id)],
                Err(e) => vec![format!("err {}", objid_err(&e))],
            }
        }
        // ids.res_cursor <base> <others> b|s <payload>
        "ids.res_cursor" => {
            let Some(d) = build_doc(&unhx(toks[1]), &parse_actors(toks[2])) else { return vec!["bad-input".into()] };
            let c = if toks[3] == "b" { Cursor::try_from(unhx(toks[4]).as_slice()) } else { Cursor::try_from(utf8(toks[4]).as_str()) };
            match c {
                Ok(c) => match d.get_cursor_position(list_of(&d), &c, None) {
                    Ok(p) => vec![format!("ok {}", p)],
                    Err(e) => vec![format!("err {}", am_err(&e))],
                },
                Err(e) => vec![format!("err {}", am_err(&e))],
            }
        }
        // ids.xres <base> <othersX> <othersY>: ids and cursors produced on X, serialised (bytes and
        // string), decoded and resolved on Y must name the same object / element (direct oracle)
        "ids.xres" => {
            let base = unhx(toks[1]);
            let (ox, oy) = (parse_actors(toks[2]), parse_actors(toks[3]));
            let (Some(x), Some(y)) = (build_doc(&base, &ox), build_doc(&base, &oy)) else { return vec!["bad-input".into()] };
            let mut res = vec![];
            let mut objs = vec![];
            let mut keys: Vec<String> = x.keys(ROOT).collect(); keys.sort();
            for k in keys {
                let (_, id) = x.get(ROOT, k.as_str()).unwrap().unwrap();
                let on_x = describe_obj(&x, &id);
                let via_bytes = ObjId::try_from(id.to_bytes().as_slice()).map(|i| describe_obj(&y, &i)).unwrap_or("undecodable".into());
                let via_str = y.import(&id.to_string()).map(|(i, _)| describe_obj(&y, &i)).unwrap_or_else(|e| format!("err {}", am_err(&e)));
                let in_y = y.get(ROOT, k.as_str()).unwrap().is_some();
                // (the length of the shared list legitimately differs between replicas: compare type and marker)
                let core = |s: &str| s.split(" len=").next().unwrap().to_string();
                if in_y && (core(&via_bytes) != core(&on_x) || core(&via_str) != core(&on_x)) {
                    res.push(format!("! C19 sig=resolve-objid {} names [{}] on the producer but [{}] (bytes) / [{}] (string) on a replica that contains it", id, on_x, via_bytes, via_str));
                }
                if !in_y && (via_bytes.starts_with("ok") || via_str.starts_with("ok")) {
                    res.push(format!("! C19 sig=resolve-objid-phantom {} resolves on a replica that does not contain it", id));
                }
                objs.push(format!("{}:{}", k, if via_bytes.starts_with("ok") { "ok" } else { "err" }));
            }
            let (lx, ly) = (list_of(&x), list_of(&y));
            let mut curs = vec![];
            for p in 0..x.length(&lx) {
                let want = elem_value(&x, &lx, p);
                let in_y = (0..y.length(&ly)).any(|q| elem_value(&y, &ly, q) == want);
                for mv in [automerge::MoveCursor::After, automerge::MoveCursor::Before] {
                    let c = x.get_cursor_moving(&lx, p, None, mv.clone()).unwrap();
                    let cb = Cursor::try_from(c.to_bytes().as_slice()).unwrap();
                    let cs = Cursor::try_from(c.to_string().as_str()).unwrap();
                    let rb = y.get_cursor_position(&ly, &cb, None);
                    let rs = y.get_cursor_position(&ly, &cs, None);
                    let shown = match (&rb, &rs) { (Ok(a), Ok(b)) if a == b => a.to_string(), (Err(_), Err(_)) => "err".into(), _ => "split".into() };
                    if shown == "split" { res.push(format!("! C19 sig=resolve-cursor-forms cursor {} resolves differently from bytes and from string", c)); }
                    if in_y {
                        let got = rb.ok().and_then(|q| elem_value(&y, &ly, q));
                        if got != want { res.push(format!("! C19 sig=resolve-cursor cursor {} names {:?} on the producer but {:?} on a replica that contains it", c, want, got)); }
                    } else if shown != "err" {
                        res.push(format!("! C19 sig=resolve-cursor-phantom cursor {} resolves on a replica that does not contain the element", c));
                    }
                    if let automerge::MoveCursor::After = mv { curs.push(format!("{}>{}", p, shown)); }
                }
            }
            res.insert(0, format!("ok objs={} cursors={}", objs.join(","), curs.join(",")));
            res
        }
        // ---- sync::State
        "ids.state_dec" => match sync::State::decode(&unhx(toks[1])) {
            Ok(s) => {
                let re = guarded_encode(|| s.encode());
                vec![format!("ok {} re={}", show_state(&s), re.map(|b| hx(&b)).unwrap_or("dbgassert".into()))]
            }
            Err(e) => vec![format!("err {}", state_err(&e))],
        },
        // ids.state_enc <shared> <last_sent> <flags a..e as 0/1 string>: encode a state with non-default
        // volatile fields; oracle: decode gives shared_heads back and every other field reset
        "ids.state_enc" => {
            let mut s = sync::State::new();
            s.shared_heads = parse_hashes(toks[1]);
            s.last_sent_heads = parse_hashes(toks[2]);
            let f: Vec<bool> = toks[3].chars().map(|c| c == '1').collect();
            if f[0] { s.their_heads = Some(s.last_sent_heads.clone()); }
            if f[1] { s.their_need = Some(s.shared_heads.clone()); }
            if f[2] { s.their_have = None; }
            if f[3] { s.sent_hashes = s.last_sent_heads.iter().copied().collect(); }
            s.in_flight = f[4]; s.have_responded = f[5];
            if f[6] { s.their_capabilities = Some(vec![sync::Capability::MessageV2]); }
            s.read_only = f[7]; s.peer_read_only = f[8]; s.needs_reset = f[9];
            match guarded_encode(|| s.encode()) {
                None => vec!["dbgassert".into()],
                Some(b) => {
                    let mut res = vec![format!("ok {}", hx(&b))];
                    let mut want = sync::State::new();
                    want.shared_heads = s.shared_heads.clone();
                    want.their_have = Some(vec![]);
                    match sync::State::decode(&b) {
                        Ok(back) => if back != want { res.push(format!("! C19 sig=state-roundtrip decoded [{}]", show_state(&back))); },
                        Err(_) => res.push("! C19 sig=state-roundtrip own bytes rejected".into()),
                    }
                    res
                }
            }
        }
        // ---- sync::Message
        "ids.msg_dec" => match sync::Message::decode(&unhx(toks[1])) {
            Ok(m) => {
                let shown = show_msg(&m);
                let re = guarded_encode(|| m.encode());
                vec![format!("ok {} re={}", shown, re.map(|b| hx(&b)).unwrap_or("dbgassert".into()))]
            }
            Err(e) => vec![format!("err {}", read_msg_err(&e))],
        },
        "ids.msg_enc" => {
            let Some(m) = parse_msg_tokens(&toks[1..]) else { return vec!["bad-input".into()] };
            let m2 = m.clone();
            match guarded_encode(|| m2.encode()) {
                None => vec!["dbgassert".into()],
                Some(b) => {
                    let mut res = vec![format!("ok {}", hx(&b))];
                    let high_flag = m.flags.map(|f| f.contains(0x80)).unwrap_or(false);
                    match sync::Message::decode(&b) {
                        Ok(back) => if back != m {
                            if high_flag { res.push("#note flags bit 7 is not representable on the wire".into()); }
                            else { res.push(format!("! C19 sig=message-roundtrip decoded [{}]", show_msg(&back))); }
                        },
                        Err(_) => res.push("! C19 sig=message-roundtrip own bytes rejected".into()),
                    }
                    res
                }
            }
        }
        // ---- exploration-only: deep decoders.  An allocation failure aborts and an endless loop hangs the
        // process, neither can be caught in-process: each input runs in a child (`amharness exec` fed with the
        // `ids.deepchild` form of the line) under an address-space limit and a wall-clock limit.
        "ids.deep" => deep_in_child(toks[1], toks[2]),
        "ids.deepchild" => deep_child(toks[1], unhx(toks[2])),
        _ => vec!["unknown-cmd".into()],
    }
}

// ---------------------------------------------------------------- generators

fn leb(n: u64) -> Vec<u8> { let mut v = vec![]; leb128::write::unsigned(&mut v, n).unwrap(); v }
fn hxs(s: &str) -> String { hx(s.as_bytes()) }

fn rand_actor(r: &mut Rng) -> Vec<u8> {
    let n = match r.below(8) { 0 => 0, 1 => 1, 2 => 16, 3 => 17, 4 => r.range(2, 6), 5 => 32, 6 => r.range(18, 40), _ => 2 } as usize;
    r.bytes(n)
}
fn rand_ctr(r: &mut Rng) -> u64 {
    match r.below(6) { 0 => r.below(10), 1 => u32::MAX as u64 - 1 + r.below(4), 2 => u64::MAX - r.below(2), _ => r.edgy_u64() }
}
fn mutate_bytes(r: &mut Rng, b: &mut Vec<u8>) {
    match r.below(6) {
        0 if !b.is_empty() => { let k = r.below(b.len() as u64) as usize; b[k] ^= 1 << r.below(8); }
        1 if !b.is_empty() => { let k = r.below(b.len() as u64) as usize; b[k] = *r.pick(&[0u8, 1, 2, 3, 0x7f, 0x80, 0xff, 16, 32]); }
        2 => { let k = r.below(b.len() as u64 + 1) as usize; b.truncate(k); }
        3 => { let k = r.below(b.len() as u64 + 1) as usize; let v = leb(r.edgy_u64()); for (j, x) in v.into_iter().enumerate() { b.insert(k + j, x); } }
        4 if !b.is_empty() => { let k = r.below(b.len() as u64) as usize; b.remove(k); }
        _ => { let n = r.below(4) as usize; b.extend(r.bytes(n)); }
    }
}

/// strings around the `[-]<ctr>@<hex>` grammar
fn grammar_string(r: &mut Rng, actors: &[Vec<u8>]) -> String {
    let prefix = *r.pick(&["", "", "", "-", "-", "--", "+", "-+", " ", "é", "\u{1F642}", "s", "e"]);
    let ctr = match r.below(12) {
        0 => "".to_string(), 1 => "0".into(), 2 => "007".into(), 3 => "4294967295".into(), 4 => "4294967296".into(),
        5 => "18446744073709551615".into(), 6 => "18446744073709551616".into(), 7 => "99999999999".into(),
        8 => "1e3".into(), 9 => "١٢".into(), 10 => format!("{}", r.range(1, 8)), _ => format!("{}", rand_ctr(r)),
    };
    let at = *r.pick(&["@", "@", "@", "@", "@", "", "@@", "＠"]);
    let actor = match r.below(10) {
        0 => "".to_string(), 1 => "zz".into(), 2 => "abc".into(), 3 => "AB".into(), 4 => "aB01".into(), 5 => "é".into(),
        6 | 7 if !actors.is_empty() => hex::encode(r.pick(actors)),
        8 if !actors.is_empty() => hex::encode(r.pick(actors)).to_uppercase(),
        _ => hex::encode(rand_actor(r)),
    };
    match r.below(14) {
        0 => "".into(), 1 => "_root".into(), 2 => "_roo".into(), 3 => "s".into(), 4 => "e".into(), 5 => "-".into(), 6 => "@".into(),
        7 => "é".into(), 8 => "_head".into(),
        _ => format!("{}{}{}{}", prefix, ctr, at, actor),
    }
}

fn doc_actors(r: &mut Rng) -> (Vec<u8>, Vec<Vec<u8>>) {
    // the base actor sorts first, last or in the middle of the others (actor numbering differs between replicas)
    let pool: Vec<Vec<u8>> = vec![vec![0x10], vec![0x20, 0x01], vec![0x20], vec![0x7f, 0xff], vec![0x80], vec![0xab], vec![0xab, 0x00], vec![0xfe; 16]];
    let base = r.pick(&pool).clone();
    let mut others = vec![];
    for a in &pool { if *a != base && r.chance(2, 5) { others.push(a.clone()); } }
    for i in (1..others.len()).rev() { let j = r.below(i as u64 + 1) as usize; others.swap(i, j); }
    (base, others)
}
fn show_actors(a: &[Vec<u8>]) -> String { if a.is_empty() { "-".into() } else { a.iter().map(hex::encode).collect::<Vec<_>>().join(",") } }

fn sorted_hashes(r: &mut Rng, n: usize) -> Vec<Vec<u8>> {
    let mut hs: Vec<Vec<u8>> = (0..n).map(|_| { let mut h = r.bytes(32); if r.chance(1, 4) { h[0] = 0; } h }).collect();
    if n >= 2 && r.chance(1, 5) { hs[1] = hs[0].clone(); }
    hs.sort();
    hs
}
fn join_hashes(hs: &[Vec<u8>]) -> String { if hs.is_empty() { "-".into() } else { hs.iter().map(|h| hex::encode(h)).collect::<Vec<_>>().join(",") } }

fn rand_bloom_bytes(r: &mut Rng) -> Vec<u8> {
    match r.below(4) {
        0 => vec![],
        1 => {
            let n = r.range(1, 12) as usize;
            let hs: Vec<ChangeHash> = (0..n).map(|_| ChangeHash::try_from(r.bytes(32).as_slice()).unwrap()).collect();
            sync::BloomFilter::from_hashes(hs.iter()).to_bytes()
        }
        _ => {
            // explicit header with a consistent number of bit bytes
            let (ne, bpe, np) = (r.range(1, 9), r.below(12), r.below(9));
            let mut b = vec![]; b.extend(leb(ne)); b.extend(leb(bpe)); b.extend(leb(np));
            b.extend(r.bytes(((ne * bpe + 7) / 8) as usize));
            b
        }
    }
}

fn gen_message_tokens(r: &mut Rng, well_formed: bool) -> String {
    let mut hashes = |r: &mut Rng| {
        let n = r.below(4) as usize;
        let mut hs = sorted_hashes(r, n);
        if !well_formed && hs.len() >= 2 && r.chance(1, 2) { hs.reverse(); }
        join_hashes(&hs)
    };
    let heads = hashes(r);
    let need = hashes(r);
    let nh = r.below(3);
    let haves: Vec<String> = (0..nh).map(|_| format!("{}/{}", hashes(r), hx(&rand_bloom_bytes(r)))).collect();
    let nc = r.below(4);
    let changes: Vec<String> = (0..nc).map(|_| { let k = match r.below(4) { 0 => 0, 1 => 127 + r.below(3), _ => r.below(20) } as usize; hx(&r.bytes(k)) }).collect();
    let flags = match r.below(4) { 0 => "none".to_string(), 1 => r.below(8).to_string(), 2 => r.below(128).to_string(), _ => if well_formed { "4".into() } else { r.below(256).to_string() } };
    format!("{} {} {} {} {} {}", r.range(1, 2), heads, need,
        if haves.is_empty() { "_".into() } else { haves.join(";") },
        if changes.is_empty() { "_".into() } else { changes.join(";") }, flags)
}

/// rebuild a chunk around a (mutated) body with a RECOMPUTED checksum
fn rechunk(ty: u8, body: &[u8]) -> Vec<u8> {
    use sha2::Digest;
    let mut pre = vec![ty];
    leb128::write::unsigned(&mut pre, body.len() as u64).unwrap();
    let mut h = sha2::Sha256::new();
    h.update(&pre); h.update(body);
    let sum = h.finalize();
    let mut out = vec![0x85, 0x6f, 0x4a, 0x83];
    out.extend(&sum[..4]); out.extend(pre); out.extend(body);
    out
}

fn sample_doc(r: &mut Rng) -> AutoCommit {
    let mut d = AutoCommit::new().with_actor(ActorId::from(r.bytes(2)));
    let l = d.put_object(ROOT, "list", ObjType::List).unwrap();
    let t = d.put_object(ROOT, "text", ObjType::Text).unwrap();
    d.commit_with(automerge::transaction::CommitOptions::default().with_time(0));
    let mut f = d.fork().with_actor(ActorId::from(r.bytes(3)));
    for step in 0..r.range(2, 10) {
        let who = if r.chance(1, 2) { &mut d } else { &mut f };
        match r.below(7) {
            0 => { let n = who.length(&l); who.insert(&l, r.below(n as u64 + 1) as usize, r.below(100) as i64).unwrap(); }
            1 => { let n = who.length(&l); if n > 0 { who.delete(&l, r.below(n as u64) as usize).unwrap(); } }
            2 => { let n = who.length(&t); who.splice_text(&t, r.below(n as u64 + 1) as usize, 0, *r.pick(&["a", "é", "🙂x", "hello"])).unwrap(); }
            3 => { who.put(ROOT, *r.pick(&["a", "b", "c"]), automerge::ScalarValue::counter(r.below(5) as i64)).unwrap(); }
            4 => { let _ = who.increment(ROOT, *r.pick(&["a", "b", "c"]), 2); }
            5 => { let m = who.put_object(ROOT, format!("m{}", step), ObjType::Map).unwrap(); who.put(&m, "x", r.bytes(3)).unwrap(); }
            _ => { let n = who.length(&t); if n >= 2 { let _ = who.mark(&t, automerge::marks::Mark::new("bold".into(), true, 0, 2), automerge::marks::ExpandMark::After); } }
        }
        if r.chance(1, 2) { who.commit_with(automerge::transaction::CommitOptions::default().with_time(0)); }
        if r.chance(1, 4) { d.merge(&mut f).unwrap(); }
    }
    d.merge(&mut f).unwrap();
    d.commit_with(automerge::transaction::CommitOptions::default().with_time(0));
    d
}

pub fn generate(r: &mut Rng, _opts: &BTreeMap<String, String>, sess: &mut Session, out: &mut Out) {
    // ---------- 1. valid values: encode + round-trip oracles
    for _ in 0..3 {
        let (c, a, i) = (rand_ctr(r), rand_actor(r), r.edgy_u64());
        exec_line(sess, &format!("ids.exid_enc {} {} {}", c, hx(&a), i), out);
        let id = ObjId::Id(c, ActorId::from(a.clone()), i as usize);
        exec_line(sess, &format!("ids.exid_bytes {}", hx(&id.to_bytes())), out);
        // the cursor with the same coordinates, through its string form and its bytes
        let pre = if r.chance(1, 2) { "-" } else { "" };
        let s = format!("{}{}@{}", pre, c, hex::encode(&a));
        exec_line(sess, &format!("ids.cursor_str {}", hxs(&s)), out);
        let cur = Cursor::try_from(s.as_str()).unwrap();
        exec_line(sess, &format!("ids.cursor_bytes {}", hx(&cur.to_bytes())), out);
        exec_line(sess, &format!("ids.actor_str {}", hxs(&hex::encode(&a))), out);
        out.count("valid_values");
    }
    exec_line(sess, "ids.exid_enc root", out);
    for s in ["s", "e"] { exec_line(sess, &format!("ids.cursor_str {}", hxs(s)), out); }
    let h = r.bytes(32);
    exec_line(sess, &format!("ids.hash_str {}", hxs(&hex::encode(&h))), out);
    exec_line(sess, &format!("ids.hash_bytes {}", hx(&h)), out);

    // ---------- 2. grammar strings, fed to every string decoder and to import/resolution
    let (base, others) = doc_actors(r);
    let mut all = others.clone(); all.push(base.clone());
    for _ in 0..8 {
        let s = grammar_string(r, &all);
        out.count("grammar_strings");
        exec_line(sess, &format!("ids.cursor_str {}", hxs(&s)), out);
        exec_line(sess, &format!("ids.import {} {} {}", hx(&base), show_actors(&others), hxs(&s)), out);
        exec_line(sess, &format!("ids.res_cursor {} {} s {}", hx(&base), show_actors(&others), hxs(&s)), out);
        if r.chance(1, 3) { exec_line(sess, &format!("ids.actor_str {}", hxs(&s)), out); exec_line(sess, &format!("ids.hash_str {}", hxs(&s)), out); }
    }
    // hash strings: right length, wrong length, upper case, bad digit
    for _ in 0..2 {
        let n = *r.pick(&[32usize, 32, 31, 33, 0, 16]);
        let mut s = hex::encode(r.bytes(n));
        match r.below(5) { 0 => s = s.to_uppercase(), 1 if !s.is_empty() => { s.pop(); } 2 if !s.is_empty() => { s.replace_range(0..1, "g"); } _ => {} }
        exec_line(sess, &format!("ids.hash_str {}", hxs(&s)), out);
        exec_line(sess, &format!("ids.hash_bytes {}", hx(&r.bytes(n))), out);
    }

    // ---------- 3. ids / cursors naming real ops, with right and wrong actor-index hints, on two replicas
    let (_, others_y) = { let (_, o) = doc_actors(r); ((), o.into_iter().filter(|a| *a != base).collect::<Vec<_>>()) };
    exec_line(sess, &format!("ids.xres {} {} {}", hx(&base), show_actors(&others), show_actors(&others_y)), out);
    out.count("xres_pairs");
    for _ in 0..6 {
        let actor = if r.chance(1, 8) { rand_actor(r) } else { r.pick(&all).clone() };
        let ctr = match r.below(8) { 0 => 0, 1 => rand_ctr(r), 2 => 99_999_999_999, _ => r.range(1, 7) };
        let hint = match r.below(4) { 0 => 0, 1 => r.below(all.len() as u64 + 2), 2 => r.edgy_u64(), _ => r.below(3) };
        let id = ObjId::Id(ctr, ActorId::from(actor.clone()), hint as usize);
        let targets = if r.chance(1, 2) { &others } else { &others_y };
        exec_line(sess, &format!("ids.res_exid {} {} {}", hx(&base), show_actors(targets), hx(&id.to_bytes())), out);
        let mut cb = vec![1u8, 3]; cb.extend(leb(actor.len() as u64)); cb.extend(&actor); cb.extend(leb(ctr)); cb.push(r.range(1, 2) as u8);
        exec_line(sess, &format!("ids.res_cursor {} {} b {}", hx(&base), show_actors(targets), hx(&cb)), out);
        out.count("resolution_queries");
    }
    exec_line(sess, &format!("ids.res_exid {} {} 00", hx(&base), show_actors(&others)), out);
    for c in ["0101", "0102"] { exec_line(sess, &format!("ids.res_cursor {} {} b {}", hx(&base), show_actors(&others), c), out); }

    // ---------- 4. mutated and random bytes into the byte decoders
    for _ in 0..6 {
        let mut b = match r.below(4) {
            0 => ObjId::Id(rand_ctr(r), ActorId::from(rand_actor(r)), r.below(5) as usize).to_bytes(),
            1 => { let a = rand_actor(r); let mut cb = vec![r.below(2) as u8]; if cb[0] == 1 { cb.push(3); } cb.extend(leb(a.len() as u64)); cb.extend(&a); cb.extend(leb(rand_ctr(r))); cb.push(r.range(0, 3) as u8); cb }
            2 => { let k = r.below(12) as usize; r.bytes(k) }
            _ => { let mut v = vec![*r.pick(&[0u8, 1, 16, 32, 17, 0x10, 0xf0])]; v.extend(leb(r.edgy_u64())); let k = r.below(6) as usize; v.extend(r.bytes(k)); v.extend(leb(r.edgy_u64())); v.extend(leb(r.edgy_u64())); v }
        };
        if r.chance(2, 3) { mutate_bytes(r, &mut b); }
        exec_line(sess, &format!("ids.exid_bytes {}", hx(&b)), out);
        exec_line(sess, &format!("ids.cursor_bytes {}", hx(&b)), out);
        out.count("mutated_id_bytes");
    }

    // ---------- 5. sync::State
    let nh = r.below(4) as usize;
    let shared = sorted_hashes(r, nh);
    let nl = r.below(3) as usize;
    let last = sorted_hashes(r, nl);
    let flags: String = (0..10).map(|_| if r.chance(1, 2) { '1' } else { '0' }).collect();
    exec_line(sess, &format!("ids.state_enc {} {} {}", join_hashes(&shared), join_hashes(&last), flags), out);
    if shared.len() >= 2 && shared[0] != shared[1] && r.chance(1, 3) {
        let mut rev = shared.clone(); rev.reverse();
        exec_line(sess, &format!("ids.state_enc {} - {}", join_hashes(&rev), flags), out);
        out.count("unsorted_state");
    }
    for _ in 0..4 {
        let mut b = vec![0x43u8]; b.extend(leb(shared.len() as u64)); for h in &shared { b.extend(h); }
        match r.below(5) {
            0 => {}
            1 => { b = vec![*r.pick(&[0x42u8, 0x43, 0x00])]; b.extend(leb(r.edgy_u64())); let k = r.below(70) as usize; b.extend(r.bytes(k)); }
            2 => { let k = r.below(8) as usize; b = r.bytes(k); }
            _ => { mutate_bytes(r, &mut b); }
        }
        exec_line(sess, &format!("ids.state_dec {}", hx(&b)), out);
        out.count("state_decodes");
    }

    // ---------- 6. sync::Message codec
    for k in 0..3 {
        let toks = gen_message_tokens(r, k < 2);
        let res = exec_line(sess, &format!("ids.msg_enc {}", toks), out);
        out.count(if k < 2 { "messages_well_formed" } else { "messages_any" });
        if let Some(b) = res.get(0).and_then(|l| l.strip_prefix("ok ")) {
            let mut bytes = unhx(b);
            exec_line(sess, &format!("ids.msg_dec {}", hx(&bytes)), out);
            for _ in 0..3 {
                let mut m = bytes.clone();
                mutate_bytes(r, &mut m);
                if r.chance(1, 3) { mutate_bytes(r, &mut m); }
                exec_line(sess, &format!("ids.msg_dec {}", hx(&m)), out);
                out.count("message_mutations");
            }
            if r.chance(1, 3) { let n = r.below(bytes.len() as u64 + 1) as usize; bytes.truncate(n); exec_line(sess, &format!("ids.msg_dec {}", hx(&bytes)), out); }
        }
    }
    {
        // hand-made framing with extreme counts / lengths
        let mut b = vec![*r.pick(&[0x42u8, 0x43, 0x44])];
        for _ in 0..r.range(1, 5) { if r.chance(1, 2) { b.extend(leb(r.edgy_u64())); } else { b.extend(leb(r.below(3))); } if r.chance(1, 3) { b.extend(r.bytes(32)); } }
        exec_line(sess, &format!("ids.msg_dec {}", hx(&b)), out);
        let k = r.below(10) as usize;
        exec_line(sess, &format!("ids.msg_dec {}", hx(&r.bytes(k))), out);
    }

    // ---------- 7. exploration only: deep decoders on random bytes and checksum-fixed mutations
    let mut d = sample_doc(r);
    let save = d.save_nocompress();
    let changes: Vec<Vec<u8>> = d.get_changes(&[]).iter().map(|c| c.raw_bytes().to_vec()).collect();
    let heads = d.get_heads();
    let all_hashes: Vec<ChangeHash> = d.get_changes(&[]).iter().map(|c| c.hash()).collect();
    let bundle = d.bundle(all_hashes).map(|b| b.bytes().to_vec()).unwrap_or_default();
    let _ = heads;
    for _ in 0..10 {
        let (entry, src): (&str, Vec<u8>) = match r.below(7) {
            0 => ("load", save.clone()),
            1 => ("rescue", save.clone()),
            2 => ("load_inc", if r.chance(1, 2) { save.clone() } else { changes.concat() }),
            3 => ("change", r.pick(&changes).clone()),
            4 if !bundle.is_empty() => (if r.chance(1, 2) { "bundle" } else { "load" }, bundle.clone()),
            5 => ("load_unverified", save.clone()),
            _ => ("load_inc", r.pick(&changes).clone()),
        };
        // split into chunks, mutate ONE chunk body, recompute its checksum, reassemble
        let bounds = super::crdt::chunk_bounds(&src);
        let data = if bounds.is_empty() || r.chance(1, 10) {
            let k = r.below(40) as usize;
            let mut v = if r.chance(1, 2) { vec![0x85, 0x6f, 0x4a, 0x83] } else { vec![] };
            v.extend(r.bytes(k)); v
        } else {
            let which = r.below(bounds.len() as u64) as usize;
            let mut outb = vec![];
            for (i, (ty, _, s, e)) in bounds.iter().enumerate() {
                if i != which { outb.extend(&src[*s..*e]); continue; }
                let mut rd = &src[*s + 9..*e];
                let before = rd.len();
                let len = leb128::read::unsigned(&mut rd).unwrap() as usize;
                let hdr = 9 + (before - rd.len());
                let mut body = src[*s + hdr..*s + hdr + len].to_vec();
                let n = r.range(1, 3);
                for _ in 0..n { mutate_bytes(r, &mut body); }
                let ty2 = if r.chance(1, 12) { *r.pick(&[0u8, 1, 2, 3, 4]) } else { *ty };
                outb.extend(rechunk(ty2, &body));
            }
            outb
        };
        out.count(&format!("deep_{}", entry));
        // an allocation failure or a kill cannot be caught: with IDS_TRACE set the input is echoed first
        if std::env::var("IDS_TRACE").is_ok() { eprintln!("ids.deep {} {}", entry, hx(&data)); }
        let res = exec_line(sess, &format!("ids.deep {} {}", entry, hx(&data)), out);
        out.count(&format!("deep_result_{}", res.get(0).map(|s| s.as_str()).unwrap_or("?")));
    }
    // a decoded (mutated) sync message processed by a document
    {
        let mut st = sync::State::new();
        if let Some(m) = d.sync().generate_sync_message(&mut st) {
            let mut b = m.encode();
            if r.chance(3, 4) { mutate_bytes(r, &mut b); }
            exec_line(sess, &format!("ids.deep recv {}", hx(&b)), out);
            out.count("deep_recv");
        }
        let toks = gen_message_tokens(r, true);
        let t: Vec<&str> = toks.split(' ').collect();
        if let Some(m) = parse_msg_tokens(&t) { exec_line(sess, &format!("ids.deep recv {}", hx(&m.encode())), out); }
    }
}
