//! Engine `anon` (property C31): `AutoCommit::anonymize` on histories built with the `crdt` engine's
//! commands.  Commands operate on the replicas / change universe of `CrdtSession`.
//!
//!   anon.run r                      r~ := r.anonymize(); direct oracles on the returned document
//!   anon.check enc origs anons      self-contained: both change lists (announced by `crdt.def`) are
//!                                   applied to fresh documents; hypotheses of the commuting theorem,
//!                                   graph isomorphism and the shape at every heads set are printed
//!                                   (the Lean driver prints the same from `Spec`)
use super::crdt::{def_line, parse_enc, parse_exid, show_actor, show_exid, show_scalar, CrdtSession};
use super::{hx, unhx};
use crate::{exec_line, rng::Rng, Out, Session};
use automerge::{legacy, AutoCommit, Change, ChangeHash, ObjId, ObjType, ReadDoc, ScalarValue, TextEncoding, Value, ROOT};
use std::collections::{BTreeMap, BTreeSet};

// ------------------------------------------------------------------ shape from public reads

/// what anonymisation promises to keep of a scalar: its kind; strings: the UTF-8 width of every
/// character (which determines the UTF-16 width and the code point count); bytes: the length
pub fn tag(v: &ScalarValue) -> String {
    match v {
        ScalarValue::Null => "n".into(),
        ScalarValue::Boolean(_) => "b".into(),
        ScalarValue::Int(_) => "i".into(),
        ScalarValue::Uint(_) => "u".into(),
        ScalarValue::F64(_) => "f".into(),
        ScalarValue::Str(s) => format!("s{}", s.chars().map(|c| char::from(b'0' + c.len_utf8() as u8)).collect::<String>()),
        ScalarValue::Bytes(b) => format!("x{}", b.len()),
        ScalarValue::Counter(_) => "c".into(),
        ScalarValue::Timestamp(_) => "t".into(),
        ScalarValue::Unknown { type_code, bytes } => format!("k{}.{}", type_code, bytes.len()),
    }
}

fn enc_width(enc: TextEncoding, s: &str) -> usize { super::crdt::width(enc, s) }

fn shape_reg(doc: &AutoCommit, vals: Vec<(Value<'_>, ObjId)>, heads: &[ChangeHash], enc: TextEncoding, depth: usize) -> String {
    let mut items: Vec<(u64, Vec<u8>, String)> = vals.iter().map(|(v, id)| {
        let (c, a) = match id { ObjId::Id(c, a, _) => (*c, a.to_bytes().to_vec()), ObjId::Root => (0, vec![]) };
        let s = match v { Value::Scalar(s) => tag(s), Value::Object(t) => shape_obj(doc, id, *t, heads, enc, depth + 1) };
        (c, a, s)
    }).collect();
    items.sort_by(|a, b| (a.0, &a.1).cmp(&(b.0, &b.1)));
    items.into_iter().map(|x| x.2).collect::<Vec<_>>().join("|")
}

/// canonical shape text of an object at `heads`: type, per key / element the conflict set (kinds,
/// widths, nested shapes); map children sorted as byte strings (key names are not part of the shape)
pub fn shape_obj(doc: &AutoCommit, obj: &ObjId, ty: ObjType, heads: &[ChangeHash], enc: TextEncoding, depth: usize) -> String {
    if depth > 200 { return "?".into(); }
    match ty {
        ObjType::Map | ObjType::Table => {
            let keys: Vec<String> = doc.keys_at(obj, heads).collect();
            let mut parts: Vec<String> = keys.iter().map(|k| {
                let vals = doc.get_all_at(obj, k.as_str(), heads).unwrap_or_default();
                shape_reg(doc, vals, heads, enc, depth)
            }).collect();
            parts.sort_by(|a, b| a.as_bytes().cmp(b.as_bytes()));
            format!("{}{{{}}}", if ty == ObjType::Map { "M" } else { "B" }, parts.join(";"))
        }
        ObjType::List | ObjType::Text => {
            let len = doc.length_at(obj, heads);
            let mut parts = vec![];
            let mut i = 0usize;
            while i < len {
                let vals = doc.get_all_at(obj, i, heads).unwrap_or_default();
                let mut w = 1;
                if ty == ObjType::Text {
                    if let Some((v, _)) = vals.last() {
                        w = match v { Value::Scalar(s) => match s.as_ref() { ScalarValue::Str(s) => enc_width(enc, s), _ => enc_width(enc, "\u{fffc}") }, _ => enc_width(enc, "\u{fffc}") };
                    }
                    if w == 0 { w = 1; }
                }
                parts.push(shape_reg(doc, vals, heads, enc, depth));
                i += w;
            }
            format!("{}{}[{}]", if ty == ObjType::List { "L" } else { "T" }, len, parts.join(";"))
        }
    }
}

pub fn shape_doc(doc: &AutoCommit, heads: &[ChangeHash], enc: TextEncoding) -> String {
    shape_obj(doc, &ROOT, ObjType::Map, heads, enc, 0)
}

// ------------------------------------------------------------------ the renaming read off two change lists

type Id = (u64, Vec<u8>);

struct FlatOp { id: Id, obj: Option<Id>, key: FKey, insert: bool, action: legacy::OpType, pred: Vec<Id> }
enum FKey { Map(String), Head, Elem(Id) }

fn lid(i: &legacy::OpId) -> Id { (i.0, i.1.to_bytes().to_vec()) }

fn flat_ops(c: &Change) -> Vec<FlatOp> {
    let e = c.decode();
    e.operations.iter().enumerate().map(|(i, op)| FlatOp {
        id: (e.start_op.get() + i as u64, e.actor_id.to_bytes().to_vec()),
        obj: match &op.obj { legacy::ObjectId::Root => None, legacy::ObjectId::Id(i) => Some(lid(i)) },
        key: match &op.key { legacy::Key::Map(k) => FKey::Map(k.to_string()), legacy::Key::Seq(legacy::ElementId::Head) => FKey::Head, legacy::Key::Seq(legacy::ElementId::Id(i)) => FKey::Elem(lid(i)) },
        insert: op.insert,
        action: op.action.clone(),
        pred: op.pred.iter().map(lid).collect(),
    }).collect()
}

#[derive(Default)]
struct Hyp { image: bool, actors: bool, keyinj: bool, markinj: bool, tags: bool, notes: Vec<String> }

fn functional<K: Ord + Clone, V: PartialEq + Clone>(pairs: &[(K, V)]) -> bool {
    let mut m: BTreeMap<K, V> = BTreeMap::new();
    for (k, v) in pairs { if let Some(x) = m.get(k) { if x != v { return false; } } else { m.insert(k.clone(), v.clone()); } }
    true
}

/// pair the operations of the two change lists positionally and check, on this instance, the
/// hypotheses of `interp_commutes_with_renaming`
fn hypotheses(orig: &[Change], anon: &[Change], enc: TextEncoding) -> Hyp {
    let _ = enc;
    let mut h = Hyp { image: true, actors: true, keyinj: true, markinj: true, tags: true, notes: vec![] };
    if orig.len() != anon.len() { h.image = false; h.notes.push("change-count".into()); return h; }
    let mut actors: Vec<(Vec<u8>, Vec<u8>)> = vec![];
    let mut keys: Vec<(Option<Id>, String, String)> = vec![];   // (original object, key, key')
    let mut marks: Vec<(String, String)> = vec![];
    for (o, a) in orig.iter().zip(anon) {
        actors.push((o.actor_id().to_bytes().to_vec(), a.actor_id().to_bytes().to_vec()));
        let (fo, fa) = (flat_ops(o), flat_ops(a));
        if fo.len() != fa.len() || o.start_op() != a.start_op() { h.image = false; h.notes.push("op-count".into()); continue; }
        for (x, y) in fo.iter().zip(&fa) {
            let mut idp = |p: &Id, q: &Id, h: &mut Hyp| { if p.0 != q.0 { h.image = false; h.notes.push("counter".into()); } actors.push((p.1.clone(), q.1.clone())); };
            idp(&x.id, &y.id, &mut h);
            match (&x.obj, &y.obj) { (None, None) => {}, (Some(p), Some(q)) => idp(p, q, &mut h), _ => { h.image = false; h.notes.push("obj".into()); } }
            match (&x.key, &y.key) {
                (FKey::Head, FKey::Head) => {}
                (FKey::Elem(p), FKey::Elem(q)) => idp(p, q, &mut h),
                (FKey::Map(p), FKey::Map(q)) => keys.push((x.obj.clone(), p.clone(), q.clone())),
                _ => { h.image = false; h.notes.push("key-kind".into()); }
            }
            if x.insert != y.insert { h.image = false; h.notes.push("insert".into()); }
            if x.pred.len() != y.pred.len() { h.image = false; h.notes.push("pred-len".into()); } else { for (p, q) in x.pred.iter().zip(&y.pred) { idp(p, q, &mut h); } }
            use legacy::OpType as T;
            match (&x.action, &y.action) {
                (T::Make(s), T::Make(t)) => if s != t { h.image = false; h.notes.push("objtype".into()); },
                (T::Delete, T::Delete) | (T::Increment(_), T::Increment(_)) => {}
                (T::Put(v), T::Put(w)) => if tag(v) != tag(w) { h.tags = false; h.notes.push(format!("tag {}->{}", show_scalar(v), show_scalar(w))); },
                (T::MarkBegin(m), T::MarkBegin(n)) => {
                    if m.expand != n.expand { h.image = false; h.notes.push("expand".into()); }
                    if tag(&m.value) != tag(&n.value) { h.tags = false; }
                    marks.push((m.name.to_string(), n.name.to_string()));
                }
                (T::MarkEnd(s), T::MarkEnd(t)) => if s != t { h.image = false; h.notes.push("expand".into()); },
                _ => { h.image = false; h.notes.push("action-kind".into()); }
            }
        }
    }
    // the renaming must be a function on actors, keys and mark names
    if !functional(&actors) { h.image = false; h.notes.push("actor-map-not-functional".into()); }
    let kp: Vec<(String, String)> = keys.iter().map(|(_, k, k2)| (k.clone(), k2.clone())).collect();
    if !functional(&kp) { h.image = false; h.notes.push("key-map-not-functional".into()); }
    if !functional(&marks) { h.image = false; h.notes.push("mark-map-not-functional".into()); }
    // actor map strictly monotone on the actors that occur (order preserved and reflected)
    let am: BTreeSet<(Vec<u8>, Vec<u8>)> = actors.into_iter().collect();
    for (a, a2) in &am { for (b, b2) in &am { if (a < b) != (a2 < b2) { h.actors = false; } } }
    if !h.actors { h.notes.push("actor-order".into()); }
    // key map injective on the keys of each object
    let ks: BTreeSet<(Option<Id>, String, String)> = keys.into_iter().collect();
    for (o1, k1, m1) in &ks { for (o2, k2, m2) in &ks { if o1 == o2 && k1 != k2 && m1 == m2 {
        h.keyinj = false;
        let n = format!("keys {} and {} of object {} both renamed to {}", hx(k1.as_bytes()), hx(k2.as_bytes()), match o1 { None => "_".to_string(), Some(i) => format!("{}@{}", i.0, hex::encode(&i.1)) }, hx(m1.as_bytes()));
        if k1 < k2 { h.notes.push(n); }
    } } }
    let ms: BTreeSet<(String, String)> = marks.into_iter().collect();
    for (k1, m1) in &ms { for (k2, m2) in &ms { if k1 != k2 && m1 == m2 { h.markinj = false; if k1 < k2 { h.notes.push(format!("mark names {} and {} both renamed to {}", hx(k1.as_bytes()), hx(k2.as_bytes()), hx(m1.as_bytes()))); } } } }
    h
}

fn okbad(b: bool) -> &'static str { if b { "ok" } else { "bad" } }

/// change-graph isomorphism along the positional pairing: deps, seq, startOp, op counts
fn graph_ok(orig: &[Change], anon: &[Change]) -> Vec<String> {
    let mut bad = vec![];
    if orig.len() != anon.len() { return vec!["change-count".into()]; }
    let eta: BTreeMap<ChangeHash, ChangeHash> = orig.iter().zip(anon).map(|(o, a)| (o.hash(), a.hash())).collect();
    let distinct: BTreeSet<ChangeHash> = eta.values().cloned().collect();
    if distinct.len() != eta.len() { bad.push("hash-collision".to_string()); }
    for (o, a) in orig.iter().zip(anon) {
        let mut want: Vec<Option<ChangeHash>> = o.deps().iter().map(|d| eta.get(d).cloned()).collect(); want.sort();
        let mut got: Vec<Option<ChangeHash>> = a.deps().iter().map(|d| Some(*d)).collect(); got.sort();
        if want != got { bad.push("deps".to_string()); }
        if o.seq() != a.seq() { bad.push("seq".to_string()); }
        if o.start_op() != a.start_op() { bad.push("start-op".to_string()); }
        if o.len() != a.len() { bad.push("op-count".to_string()); }
    }
    bad.sort(); bad.dedup();
    bad
}

/// pair the changes of two documents by (actor rank, seq); `None` when that is not a bijection
fn pair_by_rank(orig: &[Change], anon: &[Change]) -> Option<Vec<Change>> {
    let rank = |cs: &[Change]| -> BTreeMap<Vec<u8>, usize> {
        let s: BTreeSet<Vec<u8>> = cs.iter().flat_map(|c| c.actors().map(|a| a.to_bytes().to_vec()).collect::<Vec<_>>()).collect();
        s.into_iter().enumerate().map(|(i, a)| (a, i)).collect()
    };
    let (ro, ra) = (rank(orig), rank(anon));
    let mut idx: BTreeMap<(usize, u64), Change> = BTreeMap::new();
    for a in anon { if idx.insert((ra[&a.actor_id().to_bytes().to_vec()], a.seq()), a.clone()).is_some() { return None; } }
    let mut res = vec![];
    for o in orig { res.push(idx.remove(&(ro[&o.actor_id().to_bytes().to_vec()], o.seq()))?); }
    if !idx.is_empty() { return None; }
    Some(res)
}

fn heads_sets(orig: &[Change], d: &mut AutoCommit) -> Vec<Vec<ChangeHash>> {
    // long histories (the many-actors scenario): the first and the last four changes and every 16th one
    let n = orig.len();
    let mut v: Vec<Vec<ChangeHash>> = orig.iter().enumerate().filter(|(i, _)| n <= 80 || *i < 4 || *i + 4 >= n || *i % 16 == 0).map(|(_, c)| vec![c.hash()]).collect();
    v.push(d.get_heads());
    v
}

fn char_retained(c: char) -> bool { c.is_whitespace() || c.is_ascii_control() }

/// private data that survived anonymisation (the repository's own `assert_private_data_changed`)
fn unchanged_data(orig: &[Change], anon: &[Change]) -> Vec<String> {
    let mut res = vec![];
    for (o, a) in orig.iter().zip(anon) {
        if o.actor_id() == a.actor_id() { res.push("actor".to_string()); }
        if o.hash() == a.hash() { res.push("hash".to_string()); }
        if let (Some(m), Some(n)) = (o.message(), a.message()) { if m.chars().zip(n.chars()).any(|(x, y)| !char_retained(x) && x == y) { res.push("message".to_string()); } }
        for (x, y) in flat_ops(o).iter().zip(&flat_ops(a)) {
            if let (FKey::Map(k), FKey::Map(l)) = (&x.key, &y.key) { if k.chars().zip(l.chars()).any(|(p, q)| p == q) { res.push(format!("key {}", hx(k.as_bytes()))); } }
            use legacy::OpType as T;
            let sc = |v: &ScalarValue, w: &ScalarValue| -> bool {
                match (v, w) {
                    (ScalarValue::Str(s), ScalarValue::Str(t)) => s.chars().zip(t.chars()).any(|(p, q)| !char_retained(p) && p == q),
                    (ScalarValue::Bytes(s), ScalarValue::Bytes(t)) => s.iter().zip(t).any(|(p, q)| p == q),
                    (ScalarValue::Int(s), ScalarValue::Int(t)) => s == t,
                    (ScalarValue::Uint(s), ScalarValue::Uint(t)) => s == t,
                    (ScalarValue::F64(s), ScalarValue::F64(t)) => s.to_bits() == t.to_bits(),
                    (ScalarValue::Counter(s), ScalarValue::Counter(t)) => i64::from(s) == i64::from(t),
                    (ScalarValue::Timestamp(s), ScalarValue::Timestamp(t)) => s == t,
                    _ => false,
                }
            };
            match (&x.action, &y.action) {
                (T::Put(v), T::Put(w)) => if sc(v, w) { res.push(format!("value {}", show_scalar(v))); },
                (T::Increment(v), T::Increment(w)) => if v == w { res.push("increment".to_string()); },
                (T::MarkBegin(m), T::MarkBegin(n)) => {
                    if m.name.chars().zip(n.name.chars()).any(|(p, q)| p == q) { res.push(format!("mark-name {}", hx(m.name.as_bytes()))); }
                    if sc(&m.value, &n.value) { res.push("mark-value".to_string()); }
                }
                _ => {}
            }
        }
    }
    res.sort(); res.dedup();
    res
}

fn show_hs(hs: &[ChangeHash]) -> String { if hs.is_empty() { "-".into() } else { hs.iter().map(|h| hex::encode(h.0)).collect::<Vec<_>>().join(",") } }

pub fn exec(s: &mut CrdtSession, toks: &[&str]) -> Vec<String> {
    let enc = s.enc.unwrap_or(TextEncoding::UnicodeCodePoint);
    match toks[0] {
        "anon.run" => {
            let d = s.replicas.get_mut(toks[1]).unwrap();
            let mut x = match d.anonymize() {
                Ok(x) => x,
                Err(e) => return vec!["err".into(), format!("! C31 sig=anonymize-error anonymize() failed: {}", e)],
            };
            let orig = d.get_changes(&[]);
            let anon_all = x.get_changes(&[]);
            let mut res = vec![format!("ok {}", orig.len())];
            if x.text_encoding() != d.text_encoding() { res.push("! C31 sig=text-encoding anonymized document has a different text encoding".into()); }
            if orig.len() != anon_all.len() {
                res.push(format!("! C31 sig=change-count anonymized document has {} changes, original {}", anon_all.len(), orig.len()));
                s.replicas.insert(format!("{}~", toks[1]), x);
                return res;
            }
            let anon = match pair_by_rank(&orig, &anon_all) {
                Some(a) => a,
                None => { res.push("! C31 sig=graph-unmatched changes cannot be paired by (actor rank, seq)".into()); s.replicas.insert(format!("{}~", toks[1]), x); return res; }
            };
            let g = graph_ok(&orig, &anon);
            if !g.is_empty() { res.push(format!("! C31 sig=graph-{} change graph not isomorphic along (actor rank, seq): {}", g[0], g.join(","))); }
            // heads of the result = image of the heads
            let eta: BTreeMap<ChangeHash, ChangeHash> = orig.iter().zip(&anon).map(|(o, a)| (o.hash(), a.hash())).collect();
            let map_heads = |hs: &[ChangeHash]| -> Vec<ChangeHash> { hs.iter().filter_map(|h| eta.get(h).cloned()).collect() };
            let (mut ho, mut hx_) = (map_heads(&d.get_heads()), x.get_heads()); ho.sort(); hx_.sort();
            if ho != hx_ { res.push("! C31 sig=heads heads of the anonymized document are not the image of the original heads".into()); }
            // shape at every heads set of the history
            let d = s.replicas.get_mut(toks[1]).unwrap();
            for (i, hs) in heads_sets(&orig, d).iter().enumerate() {
                let (a, b) = (shape_doc(d, hs, enc), shape_doc(&x, &map_heads(hs), enc));
                if a != b {
                    res.push(format!("! C31 sig=shape-differs at heads #{} ({}) original shape {} anonymized shape {}", i, show_hs(hs), a, b));
                    break;
                }
            }
            // save → load
            let bytes = x.save();
            match AutoCommit::load_with_options(&bytes, automerge::LoadOptions::new().text_encoding(enc)) {
                Ok(mut l) => {
                    let (mut h1, mut h2) = (l.get_heads(), x.get_heads()); h1.sort(); h2.sort();
                    if h1 != h2 { res.push("! C31 sig=reload-heads reloaded anonymized document has different heads".into()); }
                    let hs = x.get_heads();
                    if shape_doc(&l, &hs, enc) != shape_doc(&x, &hs, enc) || super::crdt::show_doc(&l, None, enc) != super::crdt::show_doc(&x, None, enc) {
                        res.push("! C31 sig=reload-shape reloaded anonymized document shows a different state".into());
                    }
                    if l.get_changes(&[]).len() != orig.len() { res.push("! C31 sig=reload-changes reloaded anonymized document has a different number of changes".into()); }
                }
                Err(e) => res.push(format!("! C31 sig=reload-failed load(save(anonymized)) failed: {}", e)),
            }
            let un = unchanged_data(&orig, &anon);
            if !un.is_empty() { res.push(format!("! C31 sig=not-anonymized private data unchanged: {}", un.join(" ; "))); }
            s.replicas.insert(format!("{}~", toks[1]), x);
            res
        }
        "anon.check" => {
            let enc = parse_enc(toks[1]);
            let get = |t: &str| -> Vec<Change> { if t == "-" { vec![] } else { t.split(',').map(|h| s.changes.get(h).expect("unknown change").clone()).collect() } };
            let (orig, anon) = (get(toks[2]), get(toks[3]));
            let mut res = vec![];
            let h = hypotheses(&orig, &anon, enc);
            res.push(format!("hyp image={} actors={} keyinj={} markinj={} tags={}", okbad(h.image), okbad(h.actors), okbad(h.keyinj), okbad(h.markinj), okbad(h.tags)));
            let g = graph_ok(&orig, &anon);
            res.push(format!("graph {}", if g.is_empty() { "ok".to_string() } else { g.join(",") }));
            let build = |cs: &[Change]| -> Result<AutoCommit, automerge::AutomergeError> {
                let mut d = AutoCommit::new_with_encoding(enc);
                for c in cs { d.apply_changes([c.clone()])?; }
                Ok(d)
            };
            let mut oracles = vec![];
            match (build(&orig), build(&anon)) {
                (Ok(mut a), Ok(b)) if orig.len() == anon.len() => {
                    let eta: BTreeMap<ChangeHash, ChangeHash> = orig.iter().zip(&anon).map(|(o, a)| (o.hash(), a.hash())).collect();
                    for (i, hs) in heads_sets(&orig, &mut a).iter().enumerate() {
                        let hb: Vec<ChangeHash> = hs.iter().filter_map(|h| eta.get(h).cloned()).collect();
                        let (sa, sb) = (shape_doc(&a, hs, enc), shape_doc(&b, &hb, enc));
                        if sa == sb { res.push(format!("at {} {} eq", i, sa)); }
                        else {
                            res.push(format!("at {} {} ne {}", i, sa, sb));
                            if oracles.is_empty() { oracles.push(format!("! C31 sig=shape-differs at heads #{} ({}) original shape {} anonymized shape {}", i, show_hs(hs), sa, sb)); }
                        }
                    }
                }
                _ => { res.push("apply-failed".into()); oracles.push("! C31 sig=apply-failed the anonymized changes do not apply".into()); }
            }
            if !h.keyinj { oracles.push(format!("! C31 sig=key-collision anonymize maps two keys of one object to the same key: {}", h.notes.iter().filter(|n| n.starts_with("keys ")).cloned().collect::<Vec<_>>().join(" ; "))); }
            if !h.markinj { oracles.push(format!("! C31 sig=mark-collision anonymize maps two mark names to the same name: {}", h.notes.iter().filter(|n| n.starts_with("mark names")).cloned().collect::<Vec<_>>().join(" ; "))); }
            if !h.actors { oracles.push("! C31 sig=actor-order the actor renaming does not preserve byte order on the actors that occur".into()); }
            if !h.tags { oracles.push(format!("! C31 sig=value-kind a value changed kind or per-character width: {}", h.notes.iter().filter(|n| n.starts_with("tag ")).cloned().collect::<Vec<_>>().join(" ; "))); }
            if !h.image { oracles.push(format!("! C31 sig=not-a-renaming the anonymized operations are not the image of the originals under one renaming: {}", h.notes.join(" ; "))); }
            if !g.is_empty() { oracles.push(format!("! C31 sig=graph-{} change graph not isomorphic: {}", g[0], g.join(","))); }
            res.extend(oracles);
            res
        }
        _ => vec!["unknown-cmd".into()],
    }
}

// ------------------------------------------------------------------ generator

const KEYS: [&str; 18] = ["a", "b", "k", "é", "list", "t", "\u{1}", "\u{1f}", " ", "~", "\u{7f}", "界", "😀", "ab", "ba", "\t", "A", "\u{5}x"];
const TEXTS: [&str; 12] = ["a", "bc", "é", "🙂", "xyz", "e\u{301}", " ", "\n", "界", "ß𝄞", "\u{a0}", "Z\t"];
const STRS: [&str; 9] = ["x", "hello world", "é", "🙂", "a b\tc", "界面", "", "\u{2028}q", "private-17"];
const MARKS: [&str; 5] = ["bold", "link", "é", "\u{2}", "b"];

fn rand_scalar(r: &mut Rng) -> String {
    match r.below(11) {
        0 => "n".into(),
        1 => format!("b{}", r.below(2)),
        2 => format!("i{}", (r.below(2000) as i64) - 1000),
        3 => format!("u{}", r.below(50000)),
        4 => format!("f{}", (r.below(40) as f64 * 0.25).to_bits()),
        5 | 6 | 7 => format!("s{}", hex::encode(STRS[r.below(STRS.len() as u64) as usize].as_bytes())),
        8 => { let k = r.below(5) as usize; format!("x{}", hex::encode(r.bytes(k))) }
        9 => format!("c{}", r.below(10)),
        _ => format!("t{}", r.below(100000)),
    }
}

fn collect_objs(d: &AutoCommit, obj: &ObjId, ty: ObjType, out: &mut Vec<(String, ObjType)>, depth: usize) {
    if depth > 5 { return; }
    match ty {
        ObjType::Map | ObjType::Table => for k in d.keys(obj).collect::<Vec<_>>() {
            if let Ok(vals) = d.get_all(obj, k.as_str()) { for (v, id) in vals { if let Value::Object(t) = v { out.push((show_exid(&id), t)); collect_objs(d, &id, t, out, depth + 1); } } }
        },
        ObjType::List => for i in 0..d.length(obj) {
            if let Ok(vals) = d.get_all(obj, i) { for (v, id) in vals { if let Value::Object(t) = v { out.push((show_exid(&id), t)); collect_objs(d, &id, t, out, depth + 1); } } }
        },
        ObjType::Text => {}
    }
}

fn run(sess: &mut Session, line: &str, out: &mut Out) -> Vec<String> {
    let res = exec_line(sess, line, out);
    for l in &res {
        if let Some(t) = l.strip_prefix("! ") { let mut it = t.split(' '); let p = it.next().unwrap_or(""); let sg = it.next().unwrap_or(""); out.count(&format!("fail_{}_{}", p, sg.replace('=', "_").replace('-', "_"))); }
    }
    res
}

fn commit(sess: &mut Session, out: &mut Out, who: &str, all: &mut Vec<String>) {
    let res = run(sess, &format!("crdt.commit {}", who), out);
    if res[0] == "ok" {
        let d = sess.crdt.replicas.get_mut(who).unwrap();
        let c = d.get_last_local_change().unwrap();
        let h = hex::encode(c.hash().0);
        run(sess, &def_line(&c), out);
        run(sess, &format!("crdt.local {} {}", who, h), out);
        all.push(h);
    }
}

/// one transaction of valid edits on replica `who`
fn tx(r: &mut Rng, sess: &mut Session, out: &mut Out, who: &str, all: &mut Vec<String>, enc: TextEncoding) {
    let n = r.range(1, 4);
    for _ in 0..n {
        let d = sess.crdt.replicas.get_mut(who).unwrap();
        let mut objs: Vec<(String, ObjType)> = vec![("_".into(), ObjType::Map)];
        collect_objs(d, &ROOT, ObjType::Map, &mut objs, 0);
        // bias towards sequences once they exist
        let seqs: Vec<(String, ObjType)> = objs.iter().filter(|o| o.1 != ObjType::Map).cloned().collect();
        let (obj, ty) = if !seqs.is_empty() && r.chance(1, 2) { seqs[r.below(seqs.len() as u64) as usize].clone() } else { objs[r.below(objs.len() as u64) as usize].clone() };
        let oid = parse_exid(&obj);
        let len = d.length(&oid) as u64;
        let line = match ty {
            ObjType::Map | ObjType::Table => {
                let existing: Vec<String> = d.keys(&oid).collect();
                let counters: Vec<String> = existing.iter().filter(|key| matches!(d.get(&oid, key.as_str()), Ok(Some((Value::Scalar(v), _))) if matches!(v.as_ref(), ScalarValue::Counter(_)))).cloned().collect();
                let fresh = KEYS[r.below(KEYS.len() as u64) as usize].to_string();
                let k = |s: &str| format!("m{}", hex::encode(s.as_bytes()));
                match r.below(12) {
                    0 | 1 | 2 => format!("crdt.putobj {} {} {} {}", who, obj, k(&fresh), ["M", "L", "T", "T"][r.below(4) as usize]),
                    3 if !existing.is_empty() => format!("crdt.del {} {} {}", who, obj, k(&existing[r.below(existing.len() as u64) as usize])),
                    4 | 5 if !counters.is_empty() => format!("crdt.inc {} {} {} {}", who, obj, k(&counters[r.below(counters.len() as u64) as usize]), r.below(7) as i64 - 2),
                    6 => format!("crdt.put {} {} {} c{}", who, obj, k(&fresh), r.below(10)),
                    _ => format!("crdt.put {} {} {} {}", who, obj, k(&fresh), rand_scalar(r)),
                }
            }
            ObjType::List => {
                let counters: Vec<u64> = (0..len).filter(|i| matches!(d.get(&oid, *i as usize), Ok(Some((Value::Scalar(v), _))) if matches!(v.as_ref(), ScalarValue::Counter(_)))).collect();
                match r.below(10) {
                    0 => format!("crdt.insobj {} {} {} {}", who, obj, r.below(len + 1), ["M", "L", "T"][r.below(3) as usize]),
                    1 | 2 if len > 0 => format!("crdt.del {} {} i{}", who, obj, r.below(len)),
                    3 if !counters.is_empty() => format!("crdt.inc {} {} i{} {}", who, obj, counters[r.below(counters.len() as u64) as usize], r.below(5) as i64 - 1),
                    4 | 5 if len > 0 => format!("crdt.put {} {} i{} {}", who, obj, r.below(len), rand_scalar(r)),
                    _ => format!("crdt.ins {} {} {} {}", who, obj, r.below(len + 1), rand_scalar(r)),
                }
            }
            ObjType::Text => {
                // positions on element boundaries only (walk the real text)
                let text = d.text(&oid).unwrap_or_default();
                let mut bounds = vec![0usize];
                let mut acc = 0usize;
                for ch in text.chars() { acc += enc_width(enc, &ch.to_string()); bounds.push(acc); }
                if *bounds.last().unwrap() as u64 != len { bounds = vec![0]; }
                let bi = r.below(bounds.len() as u64) as usize;
                let pos = bounds[bi];
                #[cfg(feature = "e_richtext")]
                if r.chance(1, 4) && bounds.len() > 2 {
                    let i = r.below(bounds.len() as u64 - 1) as usize;
                    let j = r.range(i as u64 + 1, bounds.len() as u64 - 1) as usize;
                    let line = format!("crdt.rt.mark {} {} {} {} {} {} {}", who, obj, bounds[i], bounds[j], ["before", "after", "both", "none"][r.below(4) as usize],
                        hex::encode(MARKS[r.below(MARKS.len() as u64) as usize].as_bytes()), ["b1", "i7", "s78", "n"][r.below(4) as usize]);
                    run(sess, &line, out);
                    out.count("edit_mark");
                    continue;
                }
                let del = if bi + 1 < bounds.len() && r.chance(1, 3) { let j = r.range(bi as u64 + 1, (bi as u64 + 3).min(bounds.len() as u64 - 1)) as usize; bounds[j] - pos } else { 0 };
                let txt = TEXTS[r.below(TEXTS.len() as u64) as usize];
                // with marks in the text the mark-aware model of the local edit is `crdt.rt.splice`
                if cfg!(feature = "e_richtext") { format!("crdt.rt.splice {} {} {} {} {} -", who, obj, pos, del, hx(txt.as_bytes())) }
                else { format!("crdt.splice {} {} {} {} {}", who, obj, pos, del, hx(txt.as_bytes())) }
            }
        };
        let res = run(sess, &line, out);
        out.count(&format!("edit_{}", line.split(' ').next().unwrap()));
        if res.first().map(|s| s.starts_with("err")).unwrap_or(false) { out.count("edit_errors"); }
    }
    commit(sess, out, who, all);
}

pub fn generate(r: &mut Rng, _opts: &BTreeMap<String, String>, sess: &mut Session, out: &mut Out) {
    let enc_s = ["cp", "utf8", "utf16"][r.below(3) as usize];
    let enc = parse_enc(enc_s);
    out.count(&format!("enc_{}", enc_s));
    // actor ids of different lengths sharing prefixes: byte-lexicographic order is not length order
    let mut pool: Vec<Vec<u8>> = vec![vec![0x10], vec![0x10, 0x00], vec![0x10, 0x00, 0x05], vec![0x0f, 0xff], vec![0x20], vec![0x20, 0x01], vec![0xff], vec![0x00], vec![0x7f, 0x80, 0x01]];
    for i in (1..pool.len()).rev() { let j = r.below(i as u64 + 1) as usize; pool.swap(i, j); }
    if r.chance(1, 3) { for p in pool.iter_mut() { let mut q = r.bytes(14); q.extend(p.iter()); *p = q; } out.count("actors_16_bytes"); }
    let nrep = r.range(2, 3) as usize;
    let mut names = vec!["r0".to_string()];
    let mut all: Vec<String> = vec![];
    run(sess, &format!("crdt.new r0 {} {}", enc_s, hex::encode(&pool[0])), out);
    let scenario = r.below(8);
    let mut list_obj: Option<String> = None;
    if scenario == 0 {
        // every single-character ASCII key in one map: printable and control characters
        out.count("scenario_all_ascii_keys");
        let target = if r.chance(1, 2) { "_".to_string() } else {
            let res = run(sess, "crdt.putobj r0 _ m6d M", out);
            res[0].strip_prefix("ok ").unwrap_or("_").to_string()
        };
        for c in 0u8..0x7f { run(sess, &format!("crdt.put r0 {} m{} {}", target, hex::encode([c]), rand_scalar(r)), out); }
        commit(sess, out, "r0", &mut all);
    } else if scenario == 1 {
        // a few hundred one- and two-character keys of one multi-byte alphabet in one map, boundaries
        // of the alphabet (and of the surrogate gap) included: collisions of the structural substitution
        let (name, lo, hi, edges): (&str, u32, u32, Vec<u32>) = match r.below(3) {
            0 => ("2", 0x80, 0x7ff, vec![0x80, 0x81, 0x7fe, 0x7ff]),
            1 => ("3", 0x800, 0xffff, vec![0x800, 0x801, 0xd7fe, 0xd7ff, 0xe000, 0xe001, 0xfffe, 0xffff]),
            _ => ("4", 0x10000, 0x10ffff, vec![0x10000, 0x10001, 0x10fffe, 0x10ffff]),
        };
        out.count(&format!("scenario_wide_keys_{}byte", name));
        let pick = |r: &mut Rng| -> char { loop { if let Some(c) = char::from_u32(lo + r.below((hi - lo + 1) as u64) as u32) { return c; } } };
        let mut keys: BTreeSet<String> = edges.iter().filter_map(|c| char::from_u32(*c)).map(|c| c.to_string()).collect();
        // a dense run of consecutive code points, random single characters, two-character keys
        let start = lo + r.below((hi - lo - 200) as u64) as u32;
        for c in start..start + 120 { if let Some(ch) = char::from_u32(c) { keys.insert(ch.to_string()); } }
        while keys.len() < 260 { keys.insert(pick(r).to_string()); }
        while keys.len() < 300 { let mut k = pick(r).to_string(); k.push(if r.chance(1, 2) { pick(r) } else { 'a' }); keys.insert(k); }
        let target = if r.chance(1, 2) { "_".to_string() } else {
            let res = run(sess, "crdt.putobj r0 _ m6d M", out);
            res[0].strip_prefix("ok ").unwrap_or("_").to_string()
        };
        for k in &keys { run(sess, &format!("crdt.put r0 {} m{} {}", target, hex::encode(k.as_bytes()), rand_scalar(r)), out); }
        commit(sess, out, "r0", &mut all);
    } else {
        // seed structure: a list, a text, a counter
        let lres = run(sess, "crdt.putobj r0 _ m6c697374 L", out);
        list_obj = lres[0].strip_prefix("ok ").map(|s| s.to_string());
        let res = run(sess, "crdt.putobj r0 _ m74 T", out);
        let t = res[0].strip_prefix("ok ").unwrap_or("_").to_string();
        run(sess, &format!("crdt.splice r0 {} 0 0 {}", t, hx("héllo 🙂 wörld".as_bytes())), out);
        run(sess, "crdt.put r0 _ m63 c5", out);
        commit(sess, out, "r0", &mut all);
    }
    for i in 1..nrep {
        let n = format!("r{}", i);
        run(sess, &format!("crdt.fork r0 {} {}", n, hex::encode(&pool[i])), out);
        names.push(n);
    }
    let steps = if scenario <= 1 { r.range(2, 6) } else { r.range(5, 16) };
    for _ in 0..steps {
        let who = names[r.below(names.len() as u64) as usize].clone();
        match r.below(8) {
            0 | 1 if !all.is_empty() => {
                // merge: deliver everything known so far to this replica (random order)
                let mut a = all.clone();
                for i in (1..a.len()).rev() { let j = r.below(i as u64 + 1) as usize; a.swap(i, j); }
                run(sess, &format!("crdt.apply {} {}", who, a.join(",")), out);
                out.count("merges");
            }
            _ => tx(r, sess, out, &who, &mut all, enc),
        }
    }
    // many actors: a few hundred replicas forked from the same state each make ONE concurrent change with
    // equal op counters (a put of alternating type on one contested key, an insert at the head of the
    // shared list): the winner, the conflict order and the list order are decided by the actor order
    // alone, over more actors than fit one byte of rank
    if r.chance(1, 8) {
        out.count("scenario_many_actors");
        if !all.is_empty() { run(sess, &format!("crdt.apply r0 {}", all.join(",")), out); }
        let n = r.range(258, 300) as usize;
        let mut ids: BTreeSet<u16> = BTreeSet::new();
        while ids.len() < n { ids.insert(r.below(65536) as u16); }
        let mut ids: Vec<u16> = ids.into_iter().collect();
        for i in (1..ids.len()).rev() { let j = r.below(i as u64 + 1) as usize; ids.swap(i, j); }
        for (k, id) in ids.iter().enumerate() {
            let name = format!("x{}", k);
            run(sess, &format!("crdt.fork r0 {} 30{:04x}", name, id), out);
            match k % 3 {
                0 => { run(sess, &format!("crdt.put {} _ m6b i{}", name, k), out); }
                1 => { run(sess, &format!("crdt.putobj {} _ m6b T", name), out); }
                _ => { run(sess, &format!("crdt.put {} _ m6b s{}", name, hx(format!("v{}", k).as_bytes())), out); }
            }
            if let Some(l) = &list_obj { run(sess, &format!("crdt.ins {} {} 0 i{}", name, l, k), out); }
            commit(sess, out, &name, &mut all);
        }
    }
    // everything into r0
    if !all.is_empty() {
        let mut a = all.clone();
        for i in (1..a.len()).rev() { let j = r.below(i as u64 + 1) as usize; a.swap(i, j); }
        run(sess, &format!("crdt.apply r0 {}", a.join(",")), out);
    }
    run(sess, "crdt.state r0", out);
    let res = run(sess, "anon.run r0", out);
    if !res[0].starts_with("ok") { return; }
    let d = sess.crdt.replicas.get_mut("r0").unwrap();
    let orig = d.get_changes(&[]);
    out.add("changes", orig.len() as u64);
    out.add("ops", orig.iter().map(|c| c.len() as u64).sum());
    let x = sess.crdt.replicas.get_mut("r0~").unwrap();
    let anon_all = x.get_changes(&[]);
    let anon = match pair_by_rank(&orig, &anon_all) { Some(a) => a, None => anon_all.clone() };
    for a in &anon { run(sess, &def_line(a), out); }
    let hs = |cs: &[Change]| -> String { if cs.is_empty() { "-".to_string() } else { cs.iter().map(|c| hex::encode(c.hash().0)).collect::<Vec<_>>().join(",") } };
    run(sess, &format!("anon.check {} {} {}", enc_s, hs(&orig), hs(&anon)), out);
    let _ = (show_actor, unhx);
}
