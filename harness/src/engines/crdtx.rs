//! Extension of the `crdt` engine (commands `crdt.x.*` on the replicas of `CrdtSession`):
//! isolation (C29), object-id validity across replicas (C30), string migration (C40).
use super::crdt::{self, local_tx, parse_exid, show_doc, show_exid, CrdtSession};
use super::{hx, unhx};
use crate::{exec_line, rng::Rng, Out, Session};
use automerge::{transaction::Transactable, ActorId, AutoCommit, ChangeHash, ObjType, ReadDoc, TextEncoding, Value, ROOT};
use std::collections::BTreeMap;

fn parse_hashes(s: &str) -> Vec<ChangeHash> {
    if s == "-" { return vec![]; }
    s.split(',').map(|h| ChangeHash::try_from(unhx(h).as_slice()).unwrap()).collect()
}

pub fn exec(s: &mut CrdtSession, toks: &[&str], enc: TextEncoding) -> Vec<String> {
    match toks[0] {
        // crdt.x.isolate r <heads>
        "crdt.x.isolate" => {
            let hs = parse_hashes(toks[2]);
            let d = s.replicas.get_mut(toks[1]).unwrap();
            // C29 direct oracle: reads inside isolate(heads) = the state at those heads
            let want = show_doc(d, Some(&hs), enc);
            d.isolate(&hs);
            let got = show_doc(d, None, enc);
            let mut res = vec!["ok".to_string()];
            if got != want { res.push("! C29 sig=isolated-read reads after isolate(heads) differ from reads at those heads".to_string()); }
            s.iso_snap.insert(toks[1].to_string(), hs);
            res
        }
        // crdt.x.isodup r h k : read-only probe on a COPY of the replica (nothing pending): isolate at the heads list
        // [h; k] (the same hash k times — as a SET it is {h}) and read with no transaction open
        "crdt.x.isodup" => {
            let h = parse_hashes(toks[2])[0];
            let k: usize = toks[3].parse().unwrap();
            let d = s.replicas.get_mut(toks[1]).unwrap();
            let mut dup = d.clone();
            dup.isolate(&vec![h; k]);
            let got = show_doc(&dup, None, enc);
            let mut one = d.clone();
            one.isolate(&[h]);
            let mut res = vec![got.clone()];
            if got != show_doc(&one, None, enc) { res.push(format!("! C29 sig=isolated-read-repeated-head reads inside isolate([h; {}]) differ from reads inside isolate([h])", k)); }
            res
        }
        // crdt.x.isocheck r : C29 direct oracle, on an isolated replica with nothing pending: the committed
        // isolated changes "depend only on those heads and the isolated chain" — a fresh document given
        // exactly the ancestors of the replica's (isolation) heads accepts them, and shows what the
        // isolated replica reads ("the state at those heads plus the transaction's own edits")
        "crdt.x.isocheck" => {
            let d = s.replicas.get_mut(toks[1]).unwrap();
            let mut res = vec!["ok".to_string()];
            if d.pending_ops() > 0 || !s.iso_snap.contains_key(toks[1]) { return res; }
            let heads = d.get_heads();
            let all = d.get_changes(&[]);
            let by_hash: BTreeMap<ChangeHash, automerge::Change> = all.iter().map(|c| (c.hash(), c.clone())).collect();
            let mut anc: std::collections::BTreeSet<ChangeHash> = Default::default();
            let mut stack = heads.clone();
            while let Some(h) = stack.pop() {
                if !anc.insert(h) { continue; }
                if let Some(c) = by_hash.get(&h) { stack.extend(c.deps().iter().cloned()); }
            }
            let closure: Vec<automerge::Change> = all.iter().filter(|c| anc.contains(&c.hash())).cloned().collect();
            let want = show_doc(d, None, enc);
            let outcome = std::panic::catch_unwind(std::panic::AssertUnwindSafe(|| {
                let mut f = AutoCommit::new_with_encoding(enc).with_actor(ActorId::from(vec![0xfe, 0xfe]));
                match f.apply_changes(closure) {
                    Ok(()) => if f.get_heads() != heads { Err("is left with different heads (changes held back)".to_string()) } else { Ok(show_doc(&f, None, enc)) },
                    Err(e) => Err(format!("rejects them ({})", crdt::err_class(&e))),
                }
            }));
            match outcome {
                Ok(Ok(got)) => if got != want { res.push("! C29 sig=isolated-state-not-closure the isolated replica reads a state different from the document made of exactly the ancestors of its heads".to_string()); },
                Ok(Err(e)) => res.push(format!("! C29 sig=isolated-change-not-self-contained a fresh document given exactly the ancestors of the isolated heads {}", e)),
                Err(_) => res.push("! C29 sig=isolated-change-not-self-contained a fresh document given exactly the ancestors of the isolated heads panics in apply_changes (an op refers to something outside its causal past)".to_string()),
            }
            res
        }
        // crdt.x.integrate r
        "crdt.x.integrate" => {
            let d = s.replicas.get_mut(toks[1]).unwrap();
            d.integrate();
            s.iso_snap.remove(toks[1]);
            // C29 direct oracle: after integrate the document equals the merge of everything it holds:
            // a fresh document given all its changes shows the same state
            let mut res = vec!["ok".to_string()];
            let cs = d.get_changes(&[]);
            let mut f = AutoCommit::new_with_encoding(enc).with_actor(ActorId::from(vec![0xfe, 0xfe]));
            if f.apply_changes(cs).is_ok() {
                if show_doc(&f, None, enc) != show_doc(d, None, enc) { res.push("! C29 sig=integrate-not-merge after integrate the document differs from the merge of its changes".to_string()); }
            }
            res
        }
        // crdt.x.useid r <objid> : C30 — an object id from another replica / time; read + edit
        // output: ok <type> <length> | err
        "crdt.x.useid" => {
            let d = s.replicas.get_mut(toks[1]).unwrap();
            let id = parse_exid(toks[2]);
            match d.object_type(&id) {
                Ok(t) => {
                    let len = d.length(&id);
                    let st = crdt::show_obj(d, &id, t, None, enc, 0);
                    vec![format!("ok {} {}", len, st)]
                }
                Err(_) => {
                    // must behave as empty everywhere else too
                    let mut res = vec!["err".to_string()];
                    if d.length(&id) != 0 || d.keys(&id).count() != 0 || d.text(&id).map(|t| !t.is_empty()).unwrap_or(false) {
                        res.push("! C30 sig=foreign-id-data an object id the replica does not contain returned data".to_string());
                    }
                    res
                }
            }
        }
        // crdt.x.migrate r r2 : r2 := load(save(r)) with StringMigration::ConvertToText
        "crdt.x.migrate" => {
            let d = s.replicas.get_mut(toks[1]).unwrap();
            let bytes = d.save();
            let opts = automerge::LoadOptions::new().text_encoding(enc).migrate_strings(automerge::StringMigration::ConvertToText);
            match AutoCommit::load_with_options(&bytes, opts) {
                Err(_) => vec!["err".to_string()],
                Ok(mut m) => {
                    let mut res = vec![];
                    let added = m.get_changes(&[]).len() - d.get_changes(&[]).len();
                    // the migration change is made by the loaded document's (random) actor: render it as 4d494752
                    let rnd = hex::encode(m.get_actor().to_bytes());
                    let st = show_doc(&m, None, enc).replace(&format!("@{}", rnd), "@4d494752");
                    res.push(format!("ok added={} {}", added, st));
                    // C40 direct oracles
                    let mut had_visible_string = false;
                    migrate_walk(d, &m, &ROOT, &ROOT, ObjType::Map, &mut res, &mut had_visible_string, 0);
                    if !had_visible_string && added != 0 {
                        res.push("! C40 sig=unreachable-object-string no string is visible from the root but the migration added a change".to_string());
                    }
                    s.replicas.insert(toks[2].to_string(), m);
                    res
                }
            }
        }
        // crdt.x.mutload r <n> <seed> : C16 — n checksum-fixed mutants of save(r); every mutant that LOADS must
        // behave like a valid document: reads do not panic, an edit and a merge work, save→load is equal.
        // output: `ok accepted=<a> rejected=<b>` (the model does not decode document chunks: `skip`)
        "crdt.x.mutload" => {
            use sha2::Digest;
            let n: usize = toks[2].parse().unwrap();
            let mut rng = Rng::new(toks[3].parse().unwrap());
            let d = s.replicas.get_mut(toks[1]).unwrap();
            let deflate = rng.chance(1, 2);
            let bytes = d.save_with_options(automerge::SaveOptions { deflate, retain_orphans: true });
            let bounds = crdt::chunk_bounds(&bytes);
            let mut res = vec![];
            let (mut acc, mut rej) = (0, 0);
            for m in 0..n {
                let mut b = bytes.clone();
                // pick a chunk, mutate 1..3 body bytes, recompute its checksum
                let pick = rng.below(bounds.len() as u64) as usize;
                let pick = if m < 4 { bounds.iter().position(|x| x.0 == 0).unwrap_or(pick) } else { pick };
                let (ty, _, start, end) = bounds[pick].clone();
                let mut rd = &b[start + 9..];
                let before = rd.len();
                let len = leb128::read::unsigned(&mut rd).unwrap() as usize;
                let hdr = 9 + (before - rd.len());
                if len == 0 { continue; }
                // the first mutants are structure-aware: the stored HEADS of the document chunk (a head
                // repeated over another one, two heads swapped, a head replaced by another change's hash)
                let mut structured = false;
                if m < 4 && ty == 0 {
                    let body = start + hdr;
                    let mut rd = &b[body..end];
                    let l0 = rd.len();
                    let skip = (|| -> Option<(usize, usize)> {
                        let na = leb128::read::unsigned(&mut rd).ok()?;
                        for _ in 0..na { let al = leb128::read::unsigned(&mut rd).ok()? as usize; if rd.len() < al { return None; } rd = &rd[al..]; }
                        let nh = leb128::read::unsigned(&mut rd).ok()? as usize;
                        if rd.len() < 32 * nh { return None; }
                        Some((body + (l0 - rd.len()), nh))
                    })();
                    if let Some((hpos, nh)) = skip {
                        let others: Vec<ChangeHash> = d.get_changes(&[]).iter().map(|c| c.hash()).collect();
                        match m {
                            0 if nh >= 2 => { let (i, j) = (rng.below(nh as u64) as usize, rng.below(nh as u64) as usize); if i != j { let src: Vec<u8> = b[hpos + 32 * i..hpos + 32 * i + 32].to_vec(); b[hpos + 32 * j..hpos + 32 * j + 32].copy_from_slice(&src); structured = true; } }
                            1 if nh >= 2 => { let src: Vec<u8> = b[hpos..hpos + 32].to_vec(); let dst: Vec<u8> = b[hpos + 32..hpos + 64].to_vec(); b[hpos..hpos + 32].copy_from_slice(&dst); b[hpos + 32..hpos + 64].copy_from_slice(&src); structured = true; }
                            2 | 3 if nh >= 1 && !others.is_empty() => { let h = others[rng.below(others.len() as u64) as usize]; let j = rng.below(nh as u64) as usize; if b[hpos + 32 * j..hpos + 32 * j + 32] != h.0[..] { b[hpos + 32 * j..hpos + 32 * j + 32].copy_from_slice(&h.0); structured = true; } }
                            _ => {}
                        }
                    }
                }
                if !structured {
                    for _ in 0..rng.range(1, 3) {
                        let i = start + hdr + rng.below(len as u64) as usize;
                        b[i] = match rng.below(5) { 0 => 0, 1 => 0xff, 2 => b[i].wrapping_add(1), 3 => b[i].wrapping_sub(1), _ => rng.next() as u8 };
                    }
                }
                let mut h = sha2::Sha256::new();
                let mut pre = vec![ty];
                leb128::write::unsigned(&mut pre, len as u64).unwrap();
                h.update(&pre); h.update(&b[start + hdr..end]);
                let hash = h.finalize();
                b[start + 4..start + 8].copy_from_slice(&hash[..4]);
                // `load_unverified_heads` is documented as a debugging aid for examining corrupted documents: outside C16
                let unverified = false;
                let loaded = std::panic::catch_unwind(|| if unverified { AutoCommit::load_unverified_heads(&b) } else { AutoCommit::load_with_options(&b, automerge::LoadOptions::new().text_encoding(enc)) });
                let mut l = match loaded { Ok(Ok(l)) => l, Ok(Err(_)) => { rej += 1; continue; } Err(_) => { rej += 1; continue; /* load panics are C15's subject */ } };
                acc += 1;
                let tag = format!("mutant {} of seed {} ({}{})", m, toks[3], if unverified { "unverified heads, " } else { "" }, if deflate { "deflated" } else { "plain" });
                // (1) every read succeeds without panicking
                let reads = std::panic::catch_unwind(std::panic::AssertUnwindSafe(|| {
                    let st = show_doc(&l, None, enc);
                    let hs = l.get_heads();
                    let _ = show_doc(&l, Some(&hs), enc);
                    let cs = l.get_changes(&[]);
                    for c in cs.iter().take(6) { let _ = show_doc(&l, Some(&[c.hash()]), enc); }
                    let _ = l.get_missing_deps(&[]);
                    st
                }));
                let st = match reads { Ok(st) => st, Err(_) => { res.push(format!("! C16 sig=read-panics a document that loaded panics on reads: {} [at {}]", tag, panic_file())); continue; } };
                // (2) save -> load gives an equal document
                let again = std::panic::catch_unwind(std::panic::AssertUnwindSafe(|| { let sv = l.save(); AutoCommit::load_with_options(&sv, automerge::LoadOptions::new().text_encoding(enc)).map(|x| (show_doc(&x, None, enc), x.clone().get_heads())) }));
                match again {
                    Ok(Ok((st2, h2))) => { if st2 != st || h2 != l.get_heads() { res.push(format!("! C16 sig=resave-differs save→load of a document that loaded shows a different document: {}", tag)); } }
                    Ok(Err(_)) => res.push(format!("! C16 sig=resave-unloadable save() of a document that loaded does not load: {}", tag)),
                    Err(_) => res.push(format!("! C16 sig=resave-panics save/load of a document that loaded panics: {} [at {}]", tag, panic_file())),
                }
                // (3) an edit and a merge with its own fork work
                let edit = std::panic::catch_unwind(std::panic::AssertUnwindSafe(|| {
                    let mut f = l.fork().with_actor(ActorId::from(vec![0xfd, 0x01]));
                    f.put(ROOT, "__c16", 1i64)?; f.commit();
                    l.put(ROOT, "__c16b", 2i64)?; l.commit();
                    l.merge(&mut f)?;
                    let _ = show_doc(&l, None, enc);
                    Ok::<(), automerge::AutomergeError>(())
                }));
                match edit { Ok(Ok(())) => {}, Ok(Err(e)) => res.push(format!("! C16 sig=edit-fails edit/merge on a document that loaded fails ({}): {}", crdt::err_class(&e), tag)), Err(_) => res.push(format!("! C16 sig=edit-panics edit/merge on a document that loaded panics: {} [at {}]", tag, panic_file())) }
            }
            res.insert(0, format!("ok accepted={} rejected={}", acc, rej));
            res
        }
        _ => vec!["unknown-cmd".into()],
    }
}

/// file (without line) of the last panic recorded by the harness' panic hook
fn panic_file() -> String {
    let l = std::mem::take(&mut *crate::LAST_PANIC_LOC.lock().unwrap());
    l.rsplit_once(':').map(|x| x.0.to_string()).unwrap_or(l)
}

/// compare the reachable tree before / after migration
fn migrate_walk(b: &AutoCommit, a: &AutoCommit, ob: &automerge::ObjId, oa: &automerge::ObjId, ty: ObjType, res: &mut Vec<String>, had: &mut bool, depth: usize) {
    if depth > 8 { return; }
    let props: Vec<automerge::Prop> = match ty {
        ObjType::Map | ObjType::Table => b.keys(ob).map(automerge::Prop::Map).collect(),
        ObjType::List => (0..b.length(ob)).map(automerge::Prop::Seq).collect(),
        ObjType::Text => return,
    };
    if let ObjType::Map | ObjType::Table = ty {
        let ka: Vec<String> = a.keys(oa).collect();
        let kb: Vec<String> = b.keys(ob).collect();
        if ka != kb { res.push("! C40 sig=keys-changed migration changed the key set of a map".to_string()); return; }
    } else if a.length(oa) != b.length(ob) { res.push("! C40 sig=length-changed migration changed a list length".to_string()); return; }
    for p in props {
        let vb = b.get_all(ob, p.clone()).unwrap_or_default();
        let va = a.get_all(oa, p.clone()).unwrap_or_default();
        let strings: Vec<String> = vb.iter().filter_map(|(v, _)| match v { Value::Scalar(s) => match s.as_ref() { automerge::ScalarValue::Str(x) => Some(x.to_string()), _ => None }, _ => None }).collect();
        if !strings.is_empty() && ty != ObjType::Table {
            *had = true;
            // exactly one value: a text object whose content is the highest-id string
            let ok = va.len() == 1 && matches!(va[0].0, Value::Object(ObjType::Text)) && a.text(&va[0].1).ok().as_deref() == strings.last().map(|x| x.as_str());
            if !ok { res.push(format!("! C40 sig=string-not-converted {:?} had visible strings {:?} but does not hold a text object with the highest-id string", p, strings)); }
        } else {
            // unchanged values, recursively
            let sb: Vec<String> = vb.iter().map(|(v, id)| format!("{}:{}", show_exid(id), match v { Value::Scalar(s) => crdt::show_scalar(s), Value::Object(t) => format!("{:?}", t) })).collect();
            let sa: Vec<String> = va.iter().map(|(v, id)| format!("{}:{}", show_exid(id), match v { Value::Scalar(s) => crdt::show_scalar(s), Value::Object(t) => format!("{:?}", t) })).collect();
            if sa != sb { res.push(format!("! C40 sig=other-values-changed {:?} has no visible string but its values changed", p)); continue; }
            for ((v, idb), (_, ida)) in vb.iter().zip(va.iter()) {
                if let Value::Object(t) = v { migrate_walk(b, a, idb, ida, *t, res, had, depth + 1); }
            }
        }
    }
    // nothing visible is a string scalar any more
    for p in match ty { ObjType::Map | ObjType::Table => a.keys(oa).map(automerge::Prop::Map).collect::<Vec<_>>(), _ => (0..a.length(oa)).map(automerge::Prop::Seq).collect() } {
        if ty == ObjType::Table { continue; }
        for (v, _) in a.get_all(oa, p.clone()).unwrap_or_default() {
            if let Value::Scalar(s) = v { if matches!(s.as_ref(), automerge::ScalarValue::Str(_)) { res.push(format!("! C40 sig=string-left visible string scalar left at {:?}", p)); } }
        }
    }
}

/// histories with isolation: edit, isolate at a past head set, edit in isolation (several commits),
/// read, integrate, converge
pub fn generate(r: &mut Rng, _opts: &BTreeMap<String, String>, sess: &mut Session, out: &mut Out) {
    let enc = ["cp", "utf8", "utf16"][r.below(3) as usize];
    exec_line(sess, &format!("crdt.new r0 {} {}", enc, hex::encode(r.bytes(2))), out);
    let mut known = vec![("_".to_string(), ObjType::Map)];
    let mut all: Vec<String> = vec![];
    for _ in 0..r.range(2, 6) { local_tx(r, sess, out, "r0", &mut known, &mut all); }
    // a second replica with concurrent work, merged in
    exec_line(sess, &format!("crdt.fork r0 r1 {}", hex::encode(r.bytes(2))), out);
    for _ in 0..r.range(1, 4) { local_tx(r, sess, out, "r1", &mut known, &mut all); }
    for _ in 0..r.range(0, 3) { local_tx(r, sess, out, "r0", &mut known, &mut all); }
    if !all.is_empty() { exec_line(sess, &format!("crdt.apply r0 {}", all.join(",")), out); }
    exec_line(sess, "crdt.state r0", out);
    // a heads list that repeats one current head as many times as the document has heads (it is NOT the
    // set of current heads), and one that repeats it twice
    {
        let heads = sess.crdt.replicas.get_mut("r0").unwrap().get_heads();
        if heads.len() >= 2 {
            let h = hex::encode(heads[r.below(heads.len() as u64) as usize].0);
            exec_line(sess, &format!("crdt.x.isodup r0 {} {}", h, heads.len()), out);
            if heads.len() != 2 { exec_line(sess, &format!("crdt.x.isodup r0 {} 2", h), out); }
            out.count("isolate_repeated_head");
        }
    }
    let rounds = r.range(1, 3);
    for _ in 0..rounds {
        let own: Vec<String> = sess.crdt.replicas.get_mut("r0").unwrap().get_changes(&[]).iter().map(|c| hex::encode(c.hash().0)).collect();
        if own.is_empty() { return; }
        let h = own[r.below(own.len() as u64) as usize].clone();
        exec_line(sess, &format!("crdt.x.isolate r0 {}", h), out);
        out.count("isolations");
        exec_line(sess, "crdt.state r0", out);
        for _ in 0..r.range(1, 3) {
            local_tx(r, sess, out, "r0", &mut known, &mut all);
            exec_line(sess, "crdt.state r0", out);
        }
        // rich-text calls under isolation: block splits, marks and splices on a text object resolve their
        // indexes against the state at the isolation heads (plus the transaction's own edits)
        #[cfg(feature = "e_richtext")]
        if r.chance(1, 2) {
            let mut texts: Vec<String> = known.iter().filter(|(_, t)| *t == ObjType::Text).map(|(o, _)| o.clone()).collect();
            texts.extend(sess.crdt.marked_texts.iter().cloned()); texts.sort(); texts.dedup();
            let live: Vec<String> = texts.into_iter().filter(|o| { let d = sess.crdt.replicas.get_mut("r0").unwrap(); d.object_type(super::crdt::parse_exid(o)).is_ok() }).collect();
            if !live.is_empty() {
                let obj = live[r.below(live.len() as u64) as usize].clone();
                out.count("isolated_richtext_tx");
                for _ in 0..r.range(1, 3) {
                    let len = { let d = sess.crdt.replicas.get_mut("r0").unwrap(); d.length(super::crdt::parse_exid(&obj)) };
                    let pos = r.below(len as u64 + 1) as usize;
                    match r.below(4) {
                        0 | 1 => { exec_line(sess, &format!("crdt.rt.block r0 {} {}", obj, pos), out); }
                        2 if len > 0 => {
                            let a = r.below(len as u64) as usize; let b = a + 1 + r.below((len - a) as u64) as usize;
                            exec_line(sess, &format!("crdt.rt.mark r0 {} {} {} {} {} b1", obj, a, b, ["before", "after", "both", "none"][r.below(4) as usize], hex::encode("bold")), out);
                        }
                        _ => { exec_line(sess, &format!("crdt.rt.splice r0 {} {} 0 {} -", obj, pos, hex::encode(["x", "yz", "é"][r.below(3) as usize])), out); }
                    }
                    exec_line(sess, "crdt.state r0", out);
                }
                let res = exec_line(sess, "crdt.commit r0", out);
                if res.first().map(|s| s == "ok").unwrap_or(false) {
                    // (the commit reports its hash: under isolation the change is made by the isolated actor)
                    let hh = automerge::ChangeHash::try_from(super::unhx(res[1].strip_prefix("#hash ").unwrap()).as_slice()).unwrap();
                    let c = sess.crdt.replicas.get_mut("r0").unwrap().get_change_by_hash(&hh).unwrap();
                    let h = hex::encode(c.hash().0);
                    exec_line(sess, &super::crdt::def_line(&c), out);
                    exec_line(sess, &format!("crdt.local r0 {}", h), out);
                    all.push(h);
                }
                exec_line(sess, "crdt.state r0", out);
            }
        }
        // the other replica keeps working and its changes arrive while isolated
        if r.chance(1, 2) {
            local_tx(r, sess, out, "r1", &mut known, &mut all);
            if let Some(last) = all.last().cloned() { exec_line(sess, &format!("crdt.apply r0 {}", last), out); }
            exec_line(sess, "crdt.state r0", out);
        }
        exec_line(sess, "crdt.x.isocheck r0", out);
        exec_line(sess, "crdt.x.integrate r0", out);
        if !sess.crdt.marked_texts.is_empty() && r.chance(1, 2) {
            // a replica with an actor id sorting before every other opens its FIRST transaction on a document that
            // holds marks and rolls it back (actor inserted into and removed from the actor table)
            out.count("low_actor_rollback_with_marks");
            exec_line(sess, &format!("crdt.fork r0 lfm 00{:02x}", r.below(200)), out);
            exec_line(sess, &format!("crdt.put lfm _ m{} i1", hex::encode("tmp")), out);
            exec_line(sess, "crdt.rollback lfm", out);
            exec_line(sess, "crdt.state lfm", out);
        }
        exec_line(sess, "crdt.state r0", out);
    }
    // C30: ids of every object known anywhere, used on both replicas
    for (id, _) in known.clone().iter().take(8) {
        exec_line(sess, &format!("crdt.x.useid r0 {}", id), out);
        exec_line(sess, &format!("crdt.x.useid r1 {}", id), out);
    }
    if !all.is_empty() {
        exec_line(sess, &format!("crdt.apply r1 {}", all.join(",")), out);
        exec_line(sess, "crdt.state r1", out);
        exec_line(sess, "crdt.state r0", out);
    }
    // C16: checksum-fixed mutants of the saved document
    let ms = r.next() % 1_000_000;
    exec_line(sess, &format!("crdt.x.mutload r0 40 {}", ms), out);
    // C40: string migration of the converged document and of an intermediate one
    exec_line(sess, "crdt.x.migrate r0 m0", out);
    exec_line(sess, "crdt.x.migrate r1 m1", out);
    out.count("migrations");
    let _ = (hx(&[]), show_exid(&ROOT), Value::int(0));
}
