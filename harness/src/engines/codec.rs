//! Engine `codec` (stateless): the binary codec of change chunks and bundles (C18, C39, hash clause of C10).
//!
//!   codec.change <raw>                         Change::from_bytes → decode(): canonical text | err
//!   codec.reencode <raw> <lib|foreign>         Change::from(change.decode()): `ok <hash> <raw'>`
//!   codec.compressed <raw> <compressed>        from_bytes of `Change::bytes()`: same text, same hash
//!   codec.wf <raw>                             a transaction-written change: `wf=ok rt=ok` (model: `ChangeWF`, round trip)
//!   codec.expanded <actor> <seq> <startOp> <deps> <ops> <time> <msg> <extra>
//!                                              Change::from(ExpandedChange): `ok <hash> <raw>`
//!   codec.apply <raw>                          load_incremental / apply_changes on a fresh document, then
//!                                              every string read back must be valid UTF-8 (C39); model: skip
//!   codec.bundle <raw,raw,…> <i,j,…>           bundle of a subset; to_changes / load (C18); model: skip
//!
//! The Lean side is `Driver/Codec.lean` over `Model/ChangeCodec.lean`.
use super::crdt::{def_line, parse_scalar, show_doc};
use super::{hx, unhx};
use crate::{exec_line, rng::Rng, Out, Session};
use automerge::{
    legacy, marks::{ExpandMark, Mark}, transaction::{CommitOptions, Transactable}, ActorId, AutoCommit, Change, ChangeHash,
    ExpandedChange, ObjId, ObjType, ReadDoc, ScalarValue, TextEncoding, Value, ROOT,
};
use sha2::Digest;
use std::collections::BTreeMap;

const ENC: TextEncoding = TextEncoding::UnicodeCodePoint;

fn utf8_ok(s: &str) -> bool { std::str::from_utf8(s.as_bytes()).is_ok() }

/// `<hash> <actor> <seq> <startOp> <deps> <ops> t=<time> m=<msg> x=<extra>` (may panic inside `decode()`)
fn show_change(c: &Change) -> String {
    let line = def_line(c);
    let toks: Vec<&str> = line.split(' ').collect();
    format!("{} t={} m={} x={}", toks[1..7].join(" "), c.timestamp(),
        match c.message() { None => "none".to_string(), Some(m) => hx(m.as_bytes()) }, hx(c.extra_bytes()))
}

fn chunk_hash(raw: &[u8]) -> Option<Vec<u8>> {
    if raw.len() < 9 { return None; }
    let ty = raw[8];
    let mut rd = &raw[9..];
    let before = rd.len();
    let len = leb128::read::unsigned(&mut rd).ok()? as usize;
    let hdr = 9 + (before - rd.len());
    if raw.len() != hdr + len { return None; }
    let mut h = sha2::Sha256::new();
    let mut pre = vec![ty];
    leb128::write::unsigned(&mut pre, len as u64).unwrap();
    h.update(&pre); h.update(&raw[hdr..]);
    Some(h.finalize().to_vec())
}

/// C39 direct oracle on an expanded change: every string it hands out is valid UTF-8
fn strings_ok(c: &Change, e: &ExpandedChange) -> bool {
    let mut ok = c.message().map(utf8_ok).unwrap_or(true) && e.message.as_deref().map(utf8_ok).unwrap_or(true);
    for op in &e.operations {
        if let legacy::Key::Map(k) = &op.key { ok &= utf8_ok(k.as_str()); }
        match &op.action {
            legacy::OpType::Put(ScalarValue::Str(s)) => ok &= utf8_ok(s.as_str()),
            legacy::OpType::MarkBegin(m) => {
                ok &= utf8_ok(m.name.as_str());
                if let ScalarValue::Str(s) = &m.value { ok &= utf8_ok(s.as_str()); }
            }
            _ => {}
        }
    }
    ok
}

/// C39 direct oracle on a document: keys, text, string values, mark names, change messages
fn doc_strings_ok(d: &mut AutoCommit, obj: &ObjId, ty: ObjType, depth: usize) -> bool {
    if depth > 50 { return true; }
    let mut ok = true;
    let check_val = |d: &AutoCommit, v: &Value<'_>, id: &ObjId, ok: &mut bool, kids: &mut Vec<(ObjId, ObjType)>| {
        match v {
            Value::Scalar(s) => if let ScalarValue::Str(s) = s.as_ref() { *ok &= utf8_ok(s.as_str()); },
            Value::Object(t) => kids.push((id.clone(), *t)),
        }
        let _ = d;
    };
    let mut kids = vec![];
    match ty {
        ObjType::Map | ObjType::Table => {
            for k in d.keys(obj).collect::<Vec<_>>() {
                ok &= utf8_ok(&k);
                if let Ok(vals) = d.get_all(obj, k.as_str()) { for (v, id) in vals { check_val(d, &v, &id, &mut ok, &mut kids); } }
            }
        }
        ObjType::List | ObjType::Text => {
            if ty == ObjType::Text {
                if let Ok(t) = d.text(obj) { ok &= utf8_ok(&t); }
                if let Ok(ms) = d.marks(obj) {
                    for m in ms { ok &= utf8_ok(m.name()); if let ScalarValue::Str(s) = m.value() { ok &= utf8_ok(s.as_str()); } }
                }
            }
            for i in 0..d.length(obj) {
                if let Ok(vals) = d.get_all(obj, i) { for (v, id) in vals { check_val(d, &v, &id, &mut ok, &mut kids); } }
            }
        }
    }
    for (id, t) in kids { ok &= doc_strings_ok(d, &id, t, depth + 1); }
    ok
}

fn parse_op(s: &str) -> legacy::Op {
    // <id>/<obj>/<key>/<insert>/<action>/<preds>
    let f: Vec<&str> = s.split('/').collect();
    let pid = |x: &str| { let (c, a) = x.split_once('@').unwrap(); legacy::OpId(c.parse().unwrap(), ActorId::from(hex::decode(a).unwrap())) };
    let obj = if f[1] == "_" { legacy::ObjectId::Root } else { legacy::ObjectId::Id(pid(f[1])) };
    let key = match f[2].as_bytes()[0] {
        b'm' => legacy::Key::Map(String::from_utf8(hex::decode(&f[2][1..]).unwrap()).unwrap().into()),
        b'h' => legacy::Key::Seq(legacy::ElementId::Head),
        _ => legacy::Key::Seq(legacy::ElementId::Id(pid(&f[2][1..]))),
    };
    let a = f[4];
    let action = if let Some(t) = a.strip_prefix("mk") {
        legacy::OpType::Make(match t { "M" => ObjType::Map, "L" => ObjType::List, "T" => ObjType::Text, _ => ObjType::Table })
    } else if let Some(n) = a.strip_prefix("inc") { legacy::OpType::Increment(n.parse().unwrap()) }
    else if let Some(m) = a.strip_prefix("mb") {
        let p: Vec<&str> = m.splitn(3, '.').collect();
        legacy::OpType::MarkBegin(legacy::MarkData { name: String::from_utf8(hex::decode(p[0]).unwrap()).unwrap().into(), expand: p[1] == "1", value: parse_scalar_k(p[2]) })
    } else if let Some(e) = a.strip_prefix("me") { legacy::OpType::MarkEnd(e == "1") }
    else if a == "d" { legacy::OpType::Delete }
    else { legacy::OpType::Put(parse_scalar_k(&a[1..])) };
    let pred: Vec<legacy::OpId> = if f[5] == "-" { vec![] } else { f[5].split(',').map(pid).collect() };
    legacy::Op { action, obj, key, pred: pred.into(), insert: f[3] == "1" }
}

/// `parse_scalar` plus the `k<type>.<hex>` form of unknown type codes
fn parse_scalar_k(s: &str) -> ScalarValue {
    if let Some(r) = s.strip_prefix('k') {
        let (t, b) = r.split_once('.').unwrap();
        return ScalarValue::Unknown { type_code: t.parse().unwrap(), bytes: hex::decode(b).unwrap() };
    }
    parse_scalar(s)
}

pub fn exec(toks: &[&str]) -> Vec<String> {
    if std::env::var("CODEC_DEBUG").is_ok() {
        std::panic::set_hook(Box::new(|info| eprintln!("{}\n{}", info, std::backtrace::Backtrace::force_capture())));
    }
    match toks[0] {
        "codec.change" => {
            let raw = unhx(toks[1]);
            match Change::from_bytes(raw.clone()) {
                Err(e) => { if std::env::var("CODEC_DEBUG").is_ok() { eprintln!("from_bytes error: {}", e); } vec!["err".into()] }
                Ok(c) => {
                    let mut res = vec![format!("ok {}", show_change(&c))];
                    // C10 (hash clause): the hash is the SHA-256 of the chunk (type byte, length, body) it names
                    if raw.len() > 8 && raw[8] == 1 {
                        if chunk_hash(&raw).map(|h| h != c.hash().0.to_vec()).unwrap_or(true) { res.push("! C10 sig=hash change hash is not the SHA-256 of its chunk".into()); }
                    }
                    if chunk_hash(c.raw_bytes()).map(|h| h != c.hash().0.to_vec()).unwrap_or(true) { res.push("! C10 sig=hash change hash is not the SHA-256 of its raw chunk".into()); }
                    // C18 first clause: from_bytes of the raw bytes gives an equal change with the same hash
                    match Change::from_bytes(c.raw_bytes().to_vec()) {
                        Ok(c2) => if c2.raw_bytes() != c.raw_bytes() || c2.hash() != c.hash() || show_change(&c2) != show_change(&c) {
                            res.push("! C18 sig=from-raw from_bytes(raw_bytes()) is not an equal change with the same hash".into());
                        },
                        Err(_) => res.push("! C18 sig=from-raw from_bytes(raw_bytes()) of an accepted change failed".into()),
                    }
                    // C39: every string handed out is valid UTF-8
                    let e = c.decode();
                    if !strings_ok(&c, &e) { res.push("! C39 sig=invalid-utf8-escaped a decoded change hands out a string that is not valid UTF-8".into()); }
                    res
                }
            }
        }
        "codec.reencode" => {
            let raw = unhx(toks[1]);
            match Change::from_bytes(raw) {
                Err(_) => vec!["err".into()],
                Ok(c) => {
                    let e = c.decode();
                    let c2 = Change::from(e);
                    let mut res = vec![format!("ok {} {}", hex::encode(c2.hash().0), hx(c2.raw_bytes()))];
                    if c2.hash() != c.hash() {
                        if toks.get(2) == Some(&"lib") { res.push("! C18 sig=reencode-hash decode() then re-encoding a library-written change gives a different hash".into()); }
                        else { res.push("! C18 sig=reencode-hash-foreign decode() then re-encoding an accepted foreign (non-canonical) change gives a different hash".into()); }
                    }
                    res
                }
            }
        }
        // codec.wf <raw>: a change written by a real transaction (or by `Change::from(ExpandedChange)`, hand-built).  The claim checked against the model is the
        // hypothesis of `C18_change_roundtrip`: every such change satisfies the model's `ChangeWF` (`wf=ok`),
        // and `Change::from(c.decode())` writes the very same bytes with the same hash (`rt=ok`).
        "codec.wf" => {
            let raw = unhx(toks[1]);
            match Change::from_bytes(raw.clone()) {
                Err(_) => vec!["err".into()],
                Ok(c) => {
                    let c2 = Change::from(c.decode());
                    let rt = c2.raw_bytes() == raw.as_slice() && c2.hash() == c.hash();
                    let mut res = vec![format!("wf=ok rt={}", if rt { "ok" } else { "bad" })];
                    if !rt { res.push("! C18 sig=reencode-lib-bytes decode() then re-encoding a change written by a transaction gives other bytes".into()); }
                    res
                }
            }
        }
        "codec.compressed" => {
            let raw = unhx(toks[1]);
            let comp = unhx(toks[2]);
            let c1 = Change::from_bytes(raw);
            match Change::from_bytes(comp.clone()) {
                Err(_) => {
                    let mut res = vec!["err".to_string()];
                    if c1.is_ok() { res.push("! C18 sig=compressed-rejected from_bytes rejects the compressed form of an accepted change".into()); }
                    res
                }
                Ok(mut c2) => {
                    let mut res = vec![format!("ok {}", show_change(&c2))];
                    match c1 {
                        Ok(mut c1) => {
                            if c1.hash() != c2.hash() || c1.raw_bytes() != c2.raw_bytes() || show_change(&c1) != show_change(&c2) {
                                res.push("! C18 sig=compressed-differs from_bytes of the compressed bytes is not an equal change with the same hash".into());
                            }
                            if c1.bytes().as_ref() != comp.as_slice() || c2.bytes().as_ref() != comp.as_slice() {
                                res.push("! C18 sig=compressed-bytes Change::bytes() is not stable across from_bytes".into());
                            }
                        }
                        Err(_) => res.push("! C18 sig=compressed-differs the raw form is rejected but the compressed form is accepted".into()),
                    }
                    res
                }
            }
        }
        "codec.expanded" => {
            let ops: Vec<legacy::Op> = if toks[5] == "-" { vec![] } else { toks[5].split(';').map(parse_op).collect() };
            let deps: Vec<ChangeHash> = if toks[4] == "-" { vec![] } else { toks[4].split(',').map(|h| ChangeHash::try_from(unhx(h).as_slice()).unwrap()).collect() };
            let e = ExpandedChange {
                operations: ops, actor_id: ActorId::from(unhx(toks[1])), hash: None, seq: toks[2].parse().unwrap(),
                start_op: std::num::NonZeroU64::new(toks[3].parse().unwrap()).unwrap(), time: toks[6].parse().unwrap(),
                message: if toks[7] == "none" { None } else { Some(String::from_utf8(unhx(toks[7])).unwrap()) },
                deps, extra_bytes: unhx(toks[8]),
            };
            let c = Change::from(e.clone());
            let mut res = vec![format!("ok {} {}", hex::encode(c.hash().0), hx(c.raw_bytes()))];
            // C18: the bytes written load back to an equal change; expanding gives the change we started from
            match Change::from_bytes(c.raw_bytes().to_vec()) {
                Ok(c2) => {
                    if c2.hash() != c.hash() { res.push("! C18 sig=expanded-roundtrip from_bytes of a built change has a different hash".into()); }
                    let mut want = e.clone(); want.deps.sort();
                    if want.message.as_deref() == Some("") { want.message = None; }
                    let got = c2.decode();
                    let text = |x: &ExpandedChange| format!("{:?} {} {} {} {:?} {:?} {:?} {}", x.actor_id, x.seq, x.start_op, x.time, x.message, x.deps, x.extra_bytes,
                        x.operations.iter().enumerate().map(|(i, o)| show_legacy_op(i, x.actor_id.to_bytes(), x.start_op.get(), o)).collect::<Vec<_>>().join(";"));
                    if text(&got) != text(&want) { res.push("! C18 sig=expanded-roundtrip decode() of a change built from an expanded change differs from it".into()); }
                }
                Err(_) => res.push("! C18 sig=expanded-roundtrip from_bytes rejects a change built from an expanded change".into()),
            }
            res
        }
        "codec.apply" => {
            // every step under its own catch_unwind: the line reports which one panicked (the panics seen here are
            // findings of other properties: D9 `lookup_actor().unwrap()`, and the debug cross-check of get_changes)
            use std::panic::{catch_unwind, AssertUnwindSafe};
            let raw = unhx(toks[1]);
            let mut res = vec![];
            let mut status = vec![];
            let applied_hash = Change::from_bytes(raw.clone()).ok().map(|c| c.hash());
            for name in ["load_incremental", "apply_changes"] {
                let mut d = AutoCommit::new_with_encoding(ENC).with_actor(ActorId::from(vec![0xee]));
                let r = catch_unwind(AssertUnwindSafe(|| {
                    if name == "load_incremental" { d.load_incremental(&raw).is_ok() }
                    else { match Change::from_bytes(raw.clone()) { Ok(c) => d.apply_changes([c]).is_ok(), Err(_) => false } }
                }));
                match r {
                    Err(_) => { status.push(format!("{}=panic", name)); continue; }
                    Ok(false) => { status.push(format!("{}=err", name)); continue; }
                    Ok(true) => status.push(format!("{}=ok", name)),
                }
                let g = catch_unwind(AssertUnwindSafe(|| {
                    let mut good = doc_strings_ok(&mut d, &ROOT, ObjType::Map, 0);
                    let cs = d.get_changes(&[]);
                    for c in &cs { good &= c.message().map(utf8_ok).unwrap_or(true); let e = c.decode(); good &= strings_ok(c, &e); }
                    (good, cs.iter().map(|c| c.hash()).collect::<Vec<_>>())
                }));
                match g {
                    Err(_) => {
                        status.push("read=panic".into());
                        res.push(format!("! C10 sig=foreign-change-rebuild-panics after {} of an accepted foreign change, reading the document / get_changes panics", name));
                    }
                    Ok((good, hashes)) => {
                        if !good { res.push(format!("! C39 sig=invalid-utf8-escaped after {} of mutated bytes a string read from the document is not valid UTF-8", name)); }
                        if let Some(h) = applied_hash { if hashes.len() == 1 && hashes[0] != h {
                            res.push(format!("! C10 sig=foreign-change-rebuilt-differently after {} get_changes returns a change whose hash differs from the one applied", name));
                        } }
                    }
                }
            }
            res.insert(0, status.join(" "));
            res
        }
        // codec.committime <t1,t2,…>: one commit per timestamp on a fresh document (finding replay: extreme
        // timestamps overflow the change graph's delta column); model: skip
        "codec.committime" => {
            let mut d = AutoCommit::new_with_encoding(ENC).with_actor(ActorId::from(vec![0x01]));
            for (i, t) in toks[1].split(',').enumerate() {
                d.put(&ROOT, "k", i as i64).unwrap();
                d.commit_with(CommitOptions::default().with_time(t.parse().unwrap()));
            }
            vec![format!("ok {}", d.get_changes(&[]).len())]
        }
        // codec.docstr <seed>: C39 on the DOCUMENT chunk: a saved document whose map keys, mark names and change
        // message are ASCII strings of 8..20 bytes; every occurrence of such a string in the bytes gets an
        // invalid UTF-8 tail (last byte 0xff / a lone lead byte / two continuation bytes; also a middle byte),
        // the checksum is recomputed, and the bytes are loaded without head verification: load fails, or every
        // string the document hands out is valid UTF-8.   model: skip
        "codec.docstr" => {
            use sha2::Digest;
            let mut rng = Rng::new(toks[1].parse().unwrap());
            let words = ["username", "highlight", "first commit", "a-long-map-key", "0123456789abcdefg", "emphasis-strong", "list-of-items", "k2345678", "k23456789", "k234567890123456x"];
            let mut d = AutoCommit::new_with_encoding(ENC).with_actor(ActorId::from(vec![0x21, 0x43]));
            let mut used: Vec<&str> = vec![];
            for _ in 0..rng.range(2, 5) { let w = words[rng.below(words.len() as u64) as usize]; let _ = d.put(&ROOT, w, rng.below(100) as i64); used.push(w); }
            if let Ok(t) = d.put_object(&ROOT, "text-object", ObjType::Text) {
                let _ = d.splice_text(&t, 0, 0, "hello wonderful world");
                let w = words[rng.below(words.len() as u64) as usize];
                let _ = d.mark(&t, automerge::marks::Mark::new(w.to_string(), true, 1, 9), automerge::marks::ExpandMark::After);
                used.push(w); used.push("text-object");
            }
            let msg = words[rng.below(words.len() as u64) as usize];
            d.commit_with(CommitOptions::default().with_time(0).with_message(msg.to_string()));
            used.push(msg);
            let bytes = d.save_with_options(automerge::SaveOptions { deflate: false, retain_orphans: false });
            let (mut tried, mut accepted) = (0, 0);
            let mut res = vec![];
            used.sort(); used.dedup();
            for w in used {
                let wb = w.as_bytes();
                let occ: Vec<usize> = (0..bytes.len().saturating_sub(wb.len())).filter(|i| &bytes[*i..*i + wb.len()] == wb).collect();
                for o in occ {
                    for variant in 0..4 {
                        let mut b = bytes.clone();
                        let end = o + wb.len();
                        match variant { 0 => b[end - 1] = 0xff, 1 => b[end - 1] = 0xc3, 2 => { b[end - 2] = 0x80; b[end - 1] = 0xbf; } _ => b[o + wb.len() / 2] = 0xfe }
                        // recompute the checksum of the (first = document) chunk
                        let mut rd = &b[9..];
                        let before = rd.len();
                        let len = leb128::read::unsigned(&mut rd).unwrap() as usize;
                        let hdr = 9 + (before - rd.len());
                        let mut h = sha2::Sha256::new();
                        let mut pre = vec![b[8]];
                        leb128::write::unsigned(&mut pre, len as u64).unwrap();
                        h.update(&pre); h.update(&b[hdr..hdr + len]);
                        let hash = h.finalize();
                        b[4..8].copy_from_slice(&hash[..4]);
                        tried += 1;
                        let r = std::panic::catch_unwind(|| AutoCommit::load_with_options(&b, automerge::LoadOptions::new().text_encoding(ENC).verification_mode(automerge::VerificationMode::DontCheck)));
                        if let Ok(Ok(mut l)) = r {
                            accepted += 1;
                            let good = std::panic::catch_unwind(std::panic::AssertUnwindSafe(|| {
                                let mut ok = doc_strings_ok(&mut l, &ROOT, ObjType::Map, 0);
                                for c in l.get_changes(&[]) { if let Some(m) = c.message() { ok &= utf8_ok(m); } }
                                ok
                            })).unwrap_or(true);
                            if !good { res.push(format!("! C39 sig=invalid-utf8-in-document a document chunk with an invalid UTF-8 tail in the string {:?} (variant {}) loads and hands out a string that is not valid UTF-8", w, variant)); }
                        }
                    }
                }
            }
            res.insert(0, format!("ok tried={} accepted={}", tried, accepted));
            res
        }
        "codec.bundle" => {
            let raws: Vec<Vec<u8>> = toks[1].split(',').map(unhx).collect();
            let idx: Vec<usize> = if toks[2] == "-" { vec![] } else { toks[2].split(',').map(|x| x.parse().unwrap()).collect() };
            let all: Vec<Change> = raws.iter().map(|r| Change::from_bytes(r.clone()).expect("change")).collect();
            let mut full = AutoCommit::new_with_encoding(ENC).with_actor(ActorId::from(vec![0xee]));
            full.apply_changes(all.clone()).expect("apply");
            let subset: Vec<Change> = idx.iter().map(|i| all[*i].clone()).collect();
            let hashes: Vec<ChangeHash> = subset.iter().map(|c| c.hash()).collect();
            let mut res = vec![];
            match full.bundle(hashes.clone()) {
                Err(e) => { res.push("err".to_string()); res.push(format!("! C18 sig=bundle-failed bundle() of changes of the document failed: {}", e)); }
                Ok(b) => {
                    res.push(format!("ok {}", subset.len()));
                    // clause: a bundle of any set of changes gives back byte-identical changes
                    match b.to_changes() {
                        Ok(cs) => {
                            let mut got: Vec<Vec<u8>> = cs.iter().map(|c| c.raw_bytes().to_vec()).collect();
                            let mut want: Vec<Vec<u8>> = subset.iter().map(|c| c.raw_bytes().to_vec()).collect();
                            got.sort(); want.sort();
                            if got != want { res.push(format!("! C18 sig=bundle-bytes to_changes() of a bundle of {} changes does not give back byte-identical changes ({} returned)", want.len(), got.len())); }
                        }
                        Err(e) => res.push(format!("! C18 sig=bundle-bytes to_changes() failed: {}", e)),
                    }
                    // re-parsing the bundle bytes gives the same changes
                    match automerge::Bundle::try_from(b.bytes()) {
                        Ok(b2) => {
                            let a: Option<Vec<Vec<u8>>> = b2.to_changes().ok().map(|cs| cs.iter().map(|c| c.raw_bytes().to_vec()).collect());
                            let w: Option<Vec<Vec<u8>>> = b.to_changes().ok().map(|cs| cs.iter().map(|c| c.raw_bytes().to_vec()).collect());
                            if a != w { res.push("! C18 sig=bundle-reparse Bundle::try_from(bundle.bytes()) gives different changes".into()); }
                        }
                        Err(e) => res.push(format!("! C18 sig=bundle-reparse Bundle::try_from(bundle.bytes()) failed: {}", e)),
                    }
                    // clause: loading the bundle has the same effect as applying the changes
                    let rest: Vec<Change> = all.iter().enumerate().filter(|(i, _)| !idx.contains(i)).map(|(_, c)| c.clone()).collect();
                    let mut base = AutoCommit::new_with_encoding(ENC).with_actor(ActorId::from(vec![0xee]));
                    base.apply_changes(rest).expect("apply rest");
                    let mut x = base.clone();
                    let mut y = base.clone();
                    let rx = x.load_incremental(b.bytes());
                    let ry = y.apply_changes(subset.clone());
                    if rx.is_ok() != ry.is_ok() { res.push(format!("! C18 sig=bundle-load load_incremental(bundle) {:?} but apply_changes {:?}", rx.is_ok(), ry.is_ok())); }
                    else if rx.is_ok() {
                        let sx = (show_doc(&x, None, ENC), x.get_heads(), x.get_missing_deps(&[]), x.get_changes(&[]).len());
                        let sy = (show_doc(&y, None, ENC), y.get_heads(), y.get_missing_deps(&[]), y.get_changes(&[]).len());
                        if sx != sy { res.push("! C18 sig=bundle-load loading the bundle and applying its changes give different documents".into()); }
                    }
                }
            }
            res
        }
        _ => vec!["unknown-cmd".into()],
    }
}

// ------------------------------------------------------------------ structure of a change chunk (for mutations)

#[derive(Clone, Debug)]
struct Num { v: u64, pad: usize }
impl Num {
    fn of(v: u64) -> Num { Num { v, pad: 0 } }
    fn write(&self, out: &mut Vec<u8>) {
        let mut tmp = vec![];
        leb128::write::unsigned(&mut tmp, self.v).unwrap();
        if self.pad > 0 {
            let n = tmp.len();
            tmp[n - 1] |= 0x80;
            for i in 0..self.pad { tmp.push(if i + 1 == self.pad { 0x00 } else { 0x80 }); }
        }
        out.extend(tmp);
    }
}

#[derive(Clone, Debug)]
struct Parts {
    ty: u8,
    ndeps: Num, deps: Vec<Vec<u8>>,
    actor_len: Num, actor: Vec<u8>,
    seq: Num, start_op: Num, time: Vec<u8>,
    msg_len: Num, msg: Vec<u8>,
    nothers: Num, others: Vec<(Num, Vec<u8>)>,
    ncols: Num, cols: Vec<(Num, Num, Vec<u8>)>,
    extra: Vec<u8>,
}

fn rd_u(rd: &mut &[u8]) -> Option<u64> { leb128::read::unsigned(rd).ok() }
fn take<'a>(rd: &mut &'a [u8], n: usize) -> Option<&'a [u8]> { if rd.len() < n { None } else { let (a, b) = rd.split_at(n); *rd = b; Some(a) } }

fn parse_parts(raw: &[u8]) -> Option<Parts> {
    if raw.len() < 10 { return None; }
    let ty = raw[8];
    let mut rd = &raw[9..];
    let len = rd_u(&mut rd)? as usize;
    if rd.len() != len { return None; }
    let nd = rd_u(&mut rd)?;
    let mut deps = vec![];
    for _ in 0..nd { deps.push(take(&mut rd, 32)?.to_vec()); }
    let al = rd_u(&mut rd)?;
    let actor = take(&mut rd, al as usize)?.to_vec();
    let seq = rd_u(&mut rd)?;
    let start_op = rd_u(&mut rd)?;
    let before = rd;
    let _ = leb128::read::signed(&mut rd).ok()?;
    let time = before[..before.len() - rd.len()].to_vec();
    let ml = rd_u(&mut rd)?;
    let msg = take(&mut rd, ml as usize)?.to_vec();
    let no = rd_u(&mut rd)?;
    let mut others = vec![];
    for _ in 0..no { let l = rd_u(&mut rd)?; others.push((Num::of(l), take(&mut rd, l as usize)?.to_vec())); }
    let nc = rd_u(&mut rd)?;
    let mut specs = vec![];
    for _ in 0..nc { let s = rd_u(&mut rd)?; let l = rd_u(&mut rd)?; specs.push((s, l)); }
    let mut cols = vec![];
    for (s, l) in specs { cols.push((Num::of(s), Num::of(l), take(&mut rd, l as usize)?.to_vec())); }
    Some(Parts { ty, ndeps: Num::of(nd), deps, actor_len: Num::of(al), actor, seq: Num::of(seq), start_op: Num::of(start_op), time,
        msg_len: Num::of(ml), msg, nothers: Num::of(no), others, ncols: Num::of(nc), cols, extra: rd.to_vec() })
}

impl Parts {
    fn body(&self) -> Vec<u8> {
        let mut b = vec![];
        self.ndeps.write(&mut b);
        for d in &self.deps { b.extend(d); }
        self.actor_len.write(&mut b); b.extend(&self.actor);
        self.seq.write(&mut b); self.start_op.write(&mut b); b.extend(&self.time);
        self.msg_len.write(&mut b); b.extend(&self.msg);
        self.nothers.write(&mut b);
        for (l, a) in &self.others { l.write(&mut b); b.extend(a); }
        self.ncols.write(&mut b);
        for (s, l, _) in &self.cols { s.write(&mut b); l.write(&mut b); }
        for (_, _, d) in &self.cols { b.extend(d); }
        b.extend(&self.extra);
        b
    }
    /// the chunk with the checksum RECOMPUTED, so that the mutation reaches the body parser
    fn chunk(&self) -> Vec<u8> { frame(self.ty, &self.body()) }
}

fn frame(ty: u8, body: &[u8]) -> Vec<u8> {
    let mut pre = vec![ty];
    leb128::write::unsigned(&mut pre, body.len() as u64).unwrap();
    let mut h = sha2::Sha256::new();
    h.update(&pre); h.update(body);
    let hash = h.finalize();
    let mut out = vec![0x85, 0x6f, 0x4a, 0x83];
    out.extend(&hash[..4]);
    out.extend(&pre);
    out.extend(body);
    out
}

fn special(r: &mut Rng) -> u64 {
    match r.below(9) {
        0 => 0, 1 => 1, 2 => 2,
        3 => { let k = r.range(1, 9); (1u64 << (7 * k)).wrapping_add(r.below(3)).wrapping_sub(1) }
        4 => (1u64 << 32).wrapping_add(r.below(3)).wrapping_sub(1),
        5 => 1u64 << 63,
        6 => u64::MAX,
        7 => (1u64 << 63) - 1,
        _ => r.below(40),
    }
}

/// start offsets of the LEB128 numbers of a byte string read as a plain sequence of varints
fn leb_starts(d: &[u8]) -> Vec<usize> {
    let mut v = vec![]; let mut start = true;
    for (i, b) in d.iter().enumerate() { if start { v.push(i); } start = b & 0x80 == 0; }
    v
}
fn leb_end(d: &[u8], s: usize) -> usize { let mut e = s; while e < d.len() && d[e] & 0x80 != 0 { e += 1; } (e + 1).min(d.len()) }

/// spans (start, len) of string contents inside an RLE string column
fn rle_string_spans(d: &[u8]) -> Vec<(usize, usize)> {
    let mut spans = vec![];
    let mut rd = d;
    let off = |rd: &[u8]| d.len() - rd.len();
    while !rd.is_empty() {
        let n = match leb128::read::signed(&mut rd) { Ok(n) => n, Err(_) => break };
        let k = if n > 0 { 1 } else if n < 0 { n.unsigned_abs() } else { if rd_u(&mut rd).is_none() { break; } 0 };
        for _ in 0..k {
            let l = match rd_u(&mut rd) { Some(l) => l as usize, None => return spans };
            if rd.len() < l { return spans; }
            if l > 0 { spans.push((off(rd), l)); }
            rd = &rd[l..];
        }
    }
    spans
}

/// expanded values of an RLE u64 column (bounded)
fn rle_u64_values(d: &[u8]) -> Vec<Option<u64>> {
    let mut out = vec![];
    let mut rd = d;
    while !rd.is_empty() && out.len() < 100000 {
        let n = match leb128::read::signed(&mut rd) { Ok(n) => n, Err(_) => break };
        if n > 0 { let v = match rd_u(&mut rd) { Some(v) => v, None => break }; for _ in 0..n.min(100000) { out.push(Some(v)); } }
        else if n < 0 { for _ in 0..n.unsigned_abs() { match rd_u(&mut rd) { Some(v) => out.push(Some(v)), None => return out } } }
        else { let k = match rd_u(&mut rd) { Some(k) => k, None => break }; for _ in 0..k.min(100000) { out.push(None); } }
    }
    out
}

/// spans of string values inside the raw value column, from the metadata column
fn value_string_spans(meta: &[u8], raw_len: usize) -> Vec<(usize, usize)> {
    let mut spans = vec![]; let mut off = 0usize;
    for m in rle_u64_values(meta).into_iter().flatten() {
        let (ty, len) = (m & 15, (m >> 4) as usize);
        if ty <= 2 { continue; }
        if off + len > raw_len { break; }
        if ty == 6 && len > 0 { spans.push((off, len)); }
        off += len;
    }
    spans
}

/// overwrite part of a string with an ill-formed UTF-8 sequence of the same length
fn corrupt_utf8(r: &mut Rng, s: &mut [u8]) -> &'static str {
    let k = corrupt_utf8_inner(r, s);
    if std::str::from_utf8(s).is_ok() { "stillvalid" } else { k }
}
fn corrupt_utf8_inner(r: &mut Rng, s: &mut [u8]) -> &'static str {
    let n = s.len();
    let bad2: [&[u8]; 3] = [&[0xc0, 0xaf], &[0xc1, 0xbf], &[0xc3, 0x28]];
    let bad3: [&[u8]; 3] = [&[0xed, 0xa0, 0x80], &[0xe0, 0x80, 0xaf], &[0xef, 0xbf]];
    let bad4: [&[u8]; 3] = [&[0xf0, 0x80, 0x80, 0xaf], &[0xf4, 0x90, 0x80, 0x80], &[0xf8, 0x88, 0x80, 0x80]];
    match r.below(5) {
        0 if n >= 2 => { let p = r.below(n as u64 - 1) as usize; s[p..p + 2].copy_from_slice(bad2[r.below(3) as usize]); "overlong2" }
        1 if n >= 3 => { let p = r.below(n as u64 - 2) as usize; let b = bad3[r.below(2) as usize]; s[p..p + 3].copy_from_slice(b); "surrogate-or-overlong3" }
        2 if n >= 4 => { let p = r.below(n as u64 - 3) as usize; s[p..p + 4].copy_from_slice(bad4[r.below(3) as usize]); "bad4" }
        3 => { s[n - 1] = [0xc3, 0xe2, 0xf0][r.below(3) as usize]; "truncated" }
        _ => { let p = r.below(n as u64) as usize; s[p] = [0xff, 0x80, 0xfe, 0xbf][r.below(4) as usize]; "lone-byte" }
    }
}

/// one structure-aware mutation; returns its class (for the statistics)
fn mutate(r: &mut Rng, p: &mut Parts) -> String {
    match r.below(16) {
        0 | 1 => {
            // a length / count / scalar field of the metadata set to a boundary value
            let v = special(r);
            let nfields = 7 + 2 * p.cols.len() + p.others.len();
            let k = r.below(nfields as u64) as usize;
            let name;
            match k {
                0 => { p.ndeps.v = v; name = "ndeps"; } 1 => { p.actor_len.v = v; name = "actor_len"; } 2 => { p.seq.v = v; name = "seq"; }
                3 => { p.start_op.v = v; name = "start_op"; } 4 => { p.msg_len.v = v; name = "msg_len"; } 5 => { p.nothers.v = v; name = "nothers"; }
                6 => { p.ncols.v = v; name = "ncols"; }
                k if k < 7 + 2 * p.cols.len() => { let i = (k - 7) / 2; if (k - 7) % 2 == 0 { p.cols[i].0.v = v; name = "col_spec"; } else { p.cols[i].1.v = v; name = "col_len"; } }
                k => { let i = k - 7 - 2 * p.cols.len(); p.others[i].0.v = v; name = "other_len"; }
            }
            format!("field_{}", name)
        }
        2 => {
            // over-long LEB128 form of a metadata integer (the strict reader must refuse it)
            let pad = r.range(1, 3) as usize;
            match r.below(8) {
                0 => p.ndeps.pad = pad, 1 => p.actor_len.pad = pad, 2 => p.seq.pad = pad, 3 => p.start_op.pad = pad,
                4 => p.msg_len.pad = pad, 5 => p.nothers.pad = pad, 6 => p.ncols.pad = pad,
                _ => if !p.cols.is_empty() { let i = r.below(p.cols.len() as u64) as usize; if r.chance(1, 2) { p.cols[i].0.pad = pad } else { p.cols[i].1.pad = pad } },
            }
            "overlong_meta".into()
        }
        3 => {
            // timestamp: i64 extremes, over-long forms
            let forms: [&[u8]; 6] = [&[0x80, 0x80, 0x80, 0x80, 0x80, 0x80, 0x80, 0x80, 0x80, 0x7f], &[0xff, 0xff, 0xff, 0xff, 0xff, 0xff, 0xff, 0xff, 0xff, 0x00],
                &[0x80, 0x00], &[0xff, 0x7f], &[0xff, 0xff, 0xff, 0xff, 0xff, 0xff, 0xff, 0xff, 0xff, 0x01], &[0x7f]];
            p.time = forms[r.below(6) as usize].to_vec();
            "time".into()
        }
        4 | 5 if !p.cols.is_empty() => {
            // column table: swap, drop, duplicate, deflate bit, type bits, id, unknown column, length drift
            let i = r.below(p.cols.len() as u64) as usize;
            let n = p.cols.len();
            match r.below(9) {
                0 if n > 1 => { let j = r.below(n as u64) as usize; p.cols.swap(i, j); "col_swap".into() }
                1 => { p.cols.remove(i); p.ncols.v = p.ncols.v.wrapping_sub(1); "col_drop".into() }
                2 => { let c = p.cols[i].clone(); p.cols.insert(i, c); p.ncols.v = p.ncols.v.wrapping_add(1); "col_dup".into() }
                3 => { p.cols[i].0.v |= 8; "col_deflate_bit".into() }
                4 => { p.cols[i].0.v = (p.cols[i].0.v & !7) | r.below(8); "col_type".into() }
                5 => { p.cols[i].0.v = (p.cols[i].0.v & 15) | (r.below(14) << 4); "col_id".into() }
                6 => { let id = r.range(11, 40); let ty = r.below(8); let data = { let n__ = r.below(4) as usize; r.bytes(n__) }; p.cols.push((Num::of(id << 4 | ty), Num::of(data.len() as u64), data)); p.ncols.v = p.ncols.v.wrapping_add(1); "col_unknown".into() }
                7 => { if !p.cols[i].2.is_empty() { let k = r.range(1, p.cols[i].2.len() as u64) as usize; let l = p.cols[i].2.len() - k; p.cols[i].2.truncate(l); if r.chance(1, 2) { p.cols[i].1.v = l as u64; } } "col_truncate".into() }
                _ => { p.cols[i].1.v = p.cols[i].1.v.wrapping_add(r.range(1, 3)); "col_len_drift".into() }
            }
        }
        6 | 7 | 8 if !p.cols.is_empty() => {
            // inside a column: replace one varint by a boundary value (run counts, lengths, values, metadata words)
            let i = r.below(p.cols.len() as u64) as usize;
            let d = p.cols[i].2.clone();
            let starts = leb_starts(&d);
            if starts.is_empty() { return "col_empty".into(); }
            let s = starts[r.below(starts.len() as u64) as usize];
            let e = leb_end(&d, s);
            let mut enc = vec![];
            if r.chance(1, 2) { leb128::write::unsigned(&mut enc, special(r)).unwrap(); }
            else { let v = match r.below(6) { 0 => i64::MIN, 1 => i64::MAX, 2 => -1, 3 => -(r.below(5) as i64), 4 => -(1i64 << 32), _ => special(r) as i64 }; leb128::write::signed(&mut enc, v).unwrap(); }
            if r.chance(1, 6) { let n = enc.len(); enc[n - 1] |= 0x80; enc.push(0); }   // over-long inside column data (lenient reader)
            let mut nd = d[..s].to_vec(); nd.extend(&enc); nd.extend(&d[e..]);
            p.cols[i].1.v = nd.len() as u64; p.cols[i].2 = nd;
            format!("col_varint_{}", p.cols[i].0.v)
        }
        9 if !p.cols.is_empty() => {
            // inside a column: byte-level edit (set / insert / delete), length kept consistent
            let i = r.below(p.cols.len() as u64) as usize;
            let d = &mut p.cols[i].2;
            if d.is_empty() { return "col_empty".into(); }
            let k = r.below(d.len() as u64) as usize;
            match r.below(3) {
                0 => d[k] = [0, 1, 0x7f, 0x80, 0xff, 0x06, 0x16][r.below(7) as usize],
                1 => d.insert(k, r.next() as u8),
                _ => { d.remove(k); }
            }
            p.cols[i].1.v = p.cols[i].2.len() as u64;
            "col_byte".into()
        }
        10 | 11 | 12 => {
            // invalid UTF-8 placed in a string position
            let find = |p: &Parts, spec: u64| p.cols.iter().position(|c| c.0.v == spec);
            match r.below(5) {
                0 => if let Some(i) = find(p, 21) {
                    let spans = rle_string_spans(&p.cols[i].2);
                    if !spans.is_empty() { let (o, l) = spans[r.below(spans.len() as u64) as usize]; let k = corrupt_utf8(r, &mut p.cols[i].2[o..o + l]); return format!("utf8_key_{}", k); }
                    "utf8_none".into()
                } else { "utf8_none".into() },
                1 => if let (Some(m), Some(v)) = (find(p, 86), find(p, 87)) {
                    let spans = value_string_spans(&p.cols[m].2, p.cols[v].2.len());
                    if !spans.is_empty() { let (o, l) = spans[r.below(spans.len() as u64) as usize]; let k = corrupt_utf8(r, &mut p.cols[v].2[o..o + l]); return format!("utf8_value_{}", k); }
                    "utf8_none".into()
                } else { "utf8_none".into() },
                2 => if let Some(i) = find(p, 165) {
                    let spans = rle_string_spans(&p.cols[i].2);
                    if !spans.is_empty() { let (o, l) = spans[r.below(spans.len() as u64) as usize]; let k = corrupt_utf8(r, &mut p.cols[i].2[o..o + l]); return format!("utf8_markname_{}", k); }
                    "utf8_none".into()
                } else { "utf8_none".into() },
                3 => { if p.msg.is_empty() { p.msg = b"msg".to_vec(); p.msg_len.v = 3; } let k = corrupt_utf8(r, &mut p.msg[..]); format!("utf8_message_{}", k) }
                _ => { if p.actor.is_empty() { return "utf8_none".into(); } let k = corrupt_utf8(r, &mut p.actor[..]); format!("utf8_actor_{}", k) }
            }
        }
        13 => {
            // actor table: extra / missing / reordered actors (indices of the ops then point elsewhere or nowhere)
            match r.below(3) {
                0 => { let a = r.bytes(2); p.others.push((Num::of(2), a)); p.nothers.v = p.nothers.v.wrapping_add(1); "actors_extra".into() }
                1 if !p.others.is_empty() => { p.others.pop(); p.nothers.v = p.nothers.v.wrapping_sub(1); "actors_missing".into() }
                _ => { p.others.reverse(); "actors_reversed".into() }
            }
        }
        14 => {
            // a value metadata word rewritten: another type code / another length for the same raw bytes
            if let Some(i) = p.cols.iter().position(|c| c.0.v == 86) {
                let d = p.cols[i].2.clone();
                let starts = leb_starts(&d);
                if starts.len() < 2 { return "meta_none".into(); }
                let s = starts[1 + r.below(starts.len() as u64 - 1) as usize];
                let e = leb_end(&d, s);
                let mut rd = &d[s..e];
                let old = rd_u(&mut rd).unwrap_or(0);
                let new = if r.chance(1, 2) { (old & !15) | r.below(16) } else { (special(r) << 4) | (old & 15) };
                let mut enc = vec![]; leb128::write::unsigned(&mut enc, new).unwrap();
                let mut nd = d[..s].to_vec(); nd.extend(&enc); nd.extend(&d[e..]);
                p.cols[i].1.v = nd.len() as u64; p.cols[i].2 = nd;
                "value_meta".into()
            } else { "meta_none".into() }
        }
        _ => {
            // extra bytes / deps edits that keep the chunk well formed
            match r.below(3) {
                0 => { p.extra = { let n__ = r.range(1, 5) as usize; r.bytes(n__) }; "extra_bytes".into() }
                1 => { p.deps.push(r.bytes(32)); p.ndeps.v = p.ndeps.v.wrapping_add(1); "deps_unsorted".into() }
                _ => { p.ty = [0u8, 2, 3, 4, 0xff][r.below(5) as usize]; "chunk_type".into() }
            }
        }
    }
}

// ------------------------------------------------------------------ generator

fn edgy_i64(r: &mut Rng) -> i64 {
    match r.below(8) { 0 => i64::MIN, 1 => i64::MAX, 2 => -1, 3 => 0, 4 => 63, 5 => -64, 6 => 64, _ => r.edgy_u64() as i64 }
}

fn edgy_scalar(r: &mut Rng) -> ScalarValue {
    match r.below(12) {
        0 => ScalarValue::Null,
        1 => ScalarValue::Boolean(r.chance(1, 2)),
        2 => ScalarValue::Int(edgy_i64(r)),
        3 => ScalarValue::Uint(r.edgy_u64()),
        4 => ScalarValue::F64(f64::from_bits(match r.below(6) { 0 => 0x7ff8_0000_0000_0001, 1 => 0xfff0_0000_0000_0000, 2 => 0x7ff0_0000_dead_beef, 3 => 0x8000_0000_0000_0000, 4 => 1, _ => r.next() })),
        5 => ScalarValue::Str(["", "x", "é", "🙂", "e\u{301}", "\u{10ffff}", "\u{0}"][r.below(7) as usize].into()),
        6 => { let n = [0usize, 1, 127, 128, 300][r.below(5) as usize]; ScalarValue::Str("añ🙂".chars().cycle().take(n).collect::<String>().into()) }
        7 => { let k = [0usize, 1, 3, 200][r.below(4) as usize]; ScalarValue::Bytes(r.bytes(k)) }
        8 => ScalarValue::counter(edgy_i64(r)),
        9 => ScalarValue::Timestamp(edgy_i64(r)),
        10 => ScalarValue::Uint(r.below(3)),
        _ => ScalarValue::Int(r.below(200) as i64 - 100),
    }
}

fn objs_of(d: &AutoCommit, obj: &ObjId, ty: ObjType, out: &mut Vec<(ObjId, ObjType)>, depth: usize) {
    if depth > 5 { return; }
    let n = if matches!(ty, ObjType::Map | ObjType::Table) { 0 } else { d.length(obj) };
    let mut visit = |vals: Vec<(Value<'_>, ObjId)>, out: &mut Vec<(ObjId, ObjType)>| {
        for (v, id) in vals { if let Value::Object(t) = v { out.push((id.clone(), t)); objs_of(d, &id, t, out, depth + 1); } }
    };
    match ty {
        ObjType::Map | ObjType::Table => for k in d.keys(obj).collect::<Vec<_>>() { if let Ok(v) = d.get_all(obj, k.as_str()) { visit(v, out); } },
        ObjType::List => for i in 0..n { if let Ok(v) = d.get_all(obj, i) { visit(v, out); } },
        ObjType::Text => {}
    }
}

const GKEYS: [&str; 7] = ["a", "b", "", "é", "list", "🙂key", "a-long-key-name-that-is-longer-than-the-inline-capacity-of-a-smolstr"];

/// one random edit through the public API of a private document (not the crdt engine's replicas)
fn private_edit(r: &mut Rng, d: &mut AutoCommit, out: &mut Out) {
    let mut objs = vec![(ROOT, ObjType::Map)];
    objs_of(d, &ROOT, ObjType::Map, &mut objs, 0);
    let (obj, ty) = objs[r.below(objs.len() as u64) as usize].clone();
    let len = d.length(&obj);
    let res: Result<(), automerge::AutomergeError> = match ty {
        ObjType::Map | ObjType::Table => {
            let k = GKEYS[r.below(GKEYS.len() as u64) as usize];
            match r.below(10) {
                0 | 1 => d.put_object(&obj, k, [ObjType::Map, ObjType::List, ObjType::Text, ObjType::Table][r.below(4) as usize]).map(|_| ()),
                2 => d.delete(&obj, k),
                3 => { let _ = d.put(&obj, k, ScalarValue::counter(r.below(5) as i64)); d.increment(&obj, k, edgy_i64(r) / 4) }
                _ => d.put(&obj, k, edgy_scalar(r)),
            }
        }
        ObjType::List => match r.below(8) {
            0 => d.insert_object(&obj, r.below(len as u64 + 1) as usize, [ObjType::Map, ObjType::List, ObjType::Text][r.below(3) as usize]).map(|_| ()),
            1 if len > 0 => d.delete(&obj, r.below(len as u64) as usize),
            2 if len > 0 => d.put(&obj, r.below(len as u64) as usize, edgy_scalar(r)),
            _ => d.insert(&obj, r.below(len as u64 + 1) as usize, edgy_scalar(r)),
        },
        ObjType::Text => match r.below(6) {
            0 | 1 if len > 1 => {
                let a = r.below(len as u64 - 1) as usize; let b = a + 1 + r.below((len - a) as u64) as usize;
                let name = ["bold", "", "lïnk", "a-long-mark-name-that-is-longer-than-twenty-three-bytes"][r.below(4) as usize];
                let ex = [ExpandMark::Before, ExpandMark::After, ExpandMark::Both, ExpandMark::None][r.below(4) as usize];
                out.count("gen_marks");
                if r.chance(1, 5) { d.unmark(&obj, name, a, b.min(len), ex) } else { 
                    // (a NaN mark value makes the next mark() fail a debug_assert_eq! of query_insert_at: NaN != NaN)
                    let v = match edgy_scalar(r) { ScalarValue::F64(f) if f.is_nan() => ScalarValue::F64(1.5), v => v };
                    d.mark(&obj, Mark::new(name.to_string(), v, a, b.min(len)), ex) }
            }
            2 if len > 0 => d.splice_text(&obj, r.below(len as u64) as usize, 1, ""),
            _ => d.splice_text(&obj, r.below(len as u64 + 1) as usize, 0, ["a", "bc", "é", "🙂", "xyz", "e\u{301}", "The quick brown fox"][r.below(7) as usize]),
        },
    };
    if res.is_err() { out.count("gen_edit_errors"); }
}

/// changes of a random multi-actor history built on private documents
fn private_history(r: &mut Rng, out: &mut Out) -> Vec<Change> {
    let na = r.range(1, 3) as usize;
    let mut actors: Vec<Vec<u8>> = (0..na).map(|i| { let mut a = vec![0x20 * (i as u8 + 1) + r.below(16) as u8]; a.extend({ let n__ = r.below(3) as usize; r.bytes(n__) }); a }).collect();
    if r.chance(1, 2) { actors.reverse(); }
    if r.chance(1, 8) { actors[0] = vec![]; }          // the empty actor id
    if r.chance(1, 8) { actors[0] = r.bytes(40); }      // a long one
    let mut docs: Vec<AutoCommit> = vec![AutoCommit::new_with_encoding(ENC).with_actor(ActorId::from(actors[0].clone()))];
    if r.chance(1, 2) {
        // a text object with content, so that marks (all expand modes) appear early
        if let Ok(t) = docs[0].put_object(&ROOT, "text", ObjType::Text) {
            let _ = docs[0].splice_text(&t, 0, 0, "héllo wörld 🙂 text");
            if r.chance(1, 30) {
                // more than 10000 ops in one change: `ChangeOpsColumns::encode` switches to its row-wise encoder
                let big: String = "ab🙂".chars().cycle().take(10050).collect();
                let _ = docs[0].splice_text(&t, 3, 0, &big);
                out.count("gen_big_change");
            }
            docs[0].commit_with(CommitOptions::default().with_time(0));
        }
    }
    let steps = r.range(2, 12);
    for _ in 0..steps {
        let w = r.below(docs.len() as u64) as usize;
        match r.below(8) {
            0 if docs.len() < na => { let a = actors[docs.len()].clone(); let f = docs[w].fork().with_actor(ActorId::from(a)); docs.push(f); }
            1 if docs.len() > 1 => { let o = (w + 1) % docs.len(); let mut other = docs[o].clone(); let _ = docs[w].merge(&mut other); out.count("gen_merges"); }
            _ => {
                let n = if r.chance(1, 10) { r.range(20, 60) } else { r.range(1, 5) };
                for _ in 0..n { private_edit(r, &mut docs[w], out); }
                // (timestamps are kept inside a 2^63-wide window: consecutive commit times whose difference overflows an
                // i64 panic in the change graph's delta column in overflow-checking builds — see `codec.committime`)
                let mut opts = CommitOptions::default().with_time(if r.chance(1, 3) { edgy_i64(r).clamp(-(1i64 << 62), (1i64 << 62) - 1) } else { 0 });
                if r.chance(1, 3) { opts = opts.with_message(["", "m", "a message", "mé🙂"][r.below(4) as usize]); }
                docs[w].commit_with(opts);
            }
        }
    }
    let mut all: BTreeMap<Vec<u8>, Change> = BTreeMap::new();
    for d in docs.iter_mut() { for c in d.get_changes(&[]) { all.insert(c.hash().0.to_vec(), c); } }
    // causal order: re-applying them into one document gives an order that can be replayed
    let mut m = AutoCommit::new_with_encoding(ENC).with_actor(ActorId::from(vec![0xee]));
    let _ = m.apply_changes(all.values().cloned().collect::<Vec<_>>());
    m.get_changes(&[])
}

fn show_legacy_op(i: usize, actor: &[u8], start: u64, op: &legacy::Op) -> String {
    // same text as crdt::show_op (ids are implied by startOp + i)
    let sid = |id: &legacy::OpId| format!("{}@{}", id.0, hex::encode(id.1.to_bytes()));
    let show_scalar = |v: &ScalarValue| super::crdt::show_scalar(v);
    let obj = match &op.obj { legacy::ObjectId::Root => "_".to_string(), legacy::ObjectId::Id(i) => sid(i) };
    let key = match &op.key {
        legacy::Key::Map(k) => format!("m{}", hex::encode(k.as_bytes())),
        legacy::Key::Seq(legacy::ElementId::Head) => "h".to_string(),
        legacy::Key::Seq(legacy::ElementId::Id(i)) => format!("e{}", sid(i)),
    };
    let act = match &op.action {
        legacy::OpType::Make(t) => format!("mk{}", match t { ObjType::Map => "M", ObjType::List => "L", ObjType::Text => "T", ObjType::Table => "B" }),
        legacy::OpType::Delete => "d".to_string(),
        legacy::OpType::Increment(n) => format!("inc{}", n),
        legacy::OpType::Put(v) => format!("p{}", show_scalar(v)),
        legacy::OpType::MarkBegin(m) => format!("mb{}.{}.{}", hex::encode(m.name.as_bytes()), if m.expand { 1 } else { 0 }, show_scalar(&m.value)),
        legacy::OpType::MarkEnd(e) => format!("me{}", if *e { 1 } else { 0 }),
    };
    let preds: Vec<String> = op.pred.iter().map(sid).collect();
    format!("{}@{}/{}/{}/{}/{}/{}", start + i as u64, hex::encode(actor), obj, key, if op.insert { 1 } else { 0 }, act, if preds.is_empty() { "-".to_string() } else { preds.join(",") })
}

/// a hand-built expanded change over boundary values
fn hand_built(r: &mut Rng) -> String {
    let actor = match r.below(4) { 0 => vec![], 1 => r.bytes(1), 2 => r.bytes(16), _ => r.bytes(33) };
    let others: Vec<Vec<u8>> = (0..r.below(4)).map(|_| { let n__ = r.range(1, 3) as usize; r.bytes(n__) }).collect();
    let any_actor = |r: &mut Rng| if others.is_empty() || r.chance(1, 2) { actor.clone() } else { others[r.below(others.len() as u64) as usize].clone() };
    let start = match r.below(5) { 0 => 1u64, 1 => (1u64 << 32) - 40, 2 => 127, 3 => 16384, _ => r.range(1, 1000) };
    let nops = match r.below(6) { 0 => 0, 1 => 1, _ => r.range(2, 12) } as usize;
    let ctr = |r: &mut Rng| match r.below(4) { 0 => 1u64, 1 => (1u64 << 32) - 1, 2 => r.range(1, 300), _ => r.range(1, 1u64 << 31) };
    let mut ops = vec![];
    for _ in 0..nops {
        let obj = if r.chance(1, 2) { legacy::ObjectId::Root } else { legacy::ObjectId::Id(legacy::OpId(ctr(r), ActorId::from(any_actor(r)))) };
        let key = match r.below(4) {
            0 => legacy::Key::Seq(legacy::ElementId::Head),
            1 => legacy::Key::Seq(legacy::ElementId::Id(legacy::OpId(ctr(r), ActorId::from(any_actor(r))))),
            _ => legacy::Key::Map(GKEYS[r.below(GKEYS.len() as u64) as usize].into()),
        };
        let action = match r.below(12) {
            0 => legacy::OpType::Make([ObjType::Map, ObjType::List, ObjType::Text, ObjType::Table][r.below(4) as usize]),
            1 => legacy::OpType::Delete,
            2 => legacy::OpType::Increment(edgy_i64(r)),
            3 => legacy::OpType::MarkBegin(legacy::MarkData { name: ["", "bold", "lïnk🙂"][r.below(3) as usize].into(), value: edgy_scalar(r), expand: r.chance(1, 2) }),
            4 => legacy::OpType::MarkEnd(r.chance(1, 2)),
            5 => legacy::OpType::Put(ScalarValue::Unknown { type_code: r.range(10, 15) as u8, bytes: { let n__ = r.below(4) as usize; r.bytes(n__) } }),
            _ => legacy::OpType::Put(edgy_scalar(r)),
        };
        let np = match r.below(5) { 0 | 1 => 0, 2 => 1, _ => r.range(2, 4) };
        let pred: Vec<legacy::OpId> = (0..np).map(|_| legacy::OpId(ctr(r), ActorId::from(any_actor(r)))).collect();
        ops.push(legacy::Op { action, obj, key, pred: pred.into(), insert: r.chance(1, 3) });
    }
    let ndeps = r.below(4);
    let deps: Vec<String> = (0..ndeps).map(|_| hex::encode(r.bytes(32))).collect();
    let msg = match r.below(4) { 0 => "none".to_string(), 1 => hx(b""), 2 => hx("mé🙂".as_bytes()), _ => hx("x".repeat(130).as_bytes()) };
    let opss: Vec<String> = ops.iter().enumerate().map(|(i, o)| show_legacy_op(i, &actor, start, o)).collect();
    format!("codec.expanded {} {} {} {} {} {} {} {}", hx(&actor), r.edgy_u64(), start,
        if deps.is_empty() { "-".to_string() } else { deps.join(",") }, if opss.is_empty() { "-".to_string() } else { opss.join(";") },
        edgy_i64(r), msg, hx(&{ let n__ = [0usize, 0, 1, 5][r.below(4) as usize]; r.bytes(n__) }))
}

pub fn generate(r: &mut Rng, _opts: &BTreeMap<String, String>, sess: &mut Session, out: &mut Out) {
    if std::env::var("CODEC_DEBUG").is_ok() {
        std::panic::set_hook(Box::new(|info| eprintln!("{}\n{}", info, std::backtrace::Backtrace::force_capture())));
    }
    // 1. valid changes: a history of the crdt engine (its lines are also checked by the crdt model) or a private one
    let mut changes: Vec<Change> = if r.chance(1, 4) {
        out.count("history_crdt_engine");
        super::crdt::generate(r, _opts, sess, out);
        let mut m = AutoCommit::new_with_encoding(ENC).with_actor(ActorId::from(vec![0xee]));
        let _ = m.apply_changes(sess.crdt.changes.values().cloned().collect::<Vec<_>>());
        m.get_changes(&[])
    } else {
        out.count("history_private");
        private_history(r, out)
    };
    out.add("valid_changes", changes.len() as u64);
    for c in changes.iter_mut() {
        let raw = hx(c.raw_bytes());
        exec_line(sess, &format!("codec.change {}", raw), out);
        exec_line(sess, &format!("codec.reencode {} lib", raw), out);
        exec_line(sess, &format!("codec.wf {}", raw), out);
        out.count("wf_checked");
        let comp = c.bytes().to_vec();
        if comp != c.raw_bytes() { out.count("compressed_changes"); }
        if comp != c.raw_bytes() || r.chance(1, 6) { exec_line(sess, &format!("codec.compressed {} {}", raw, hx(&comp)), out); }
        out.add("ops_in_valid_changes", c.len() as u64);
    }
    let n_lib = changes.len();
    // 2. hand-built expanded changes over boundary values, decoded back and re-encoded
    for _ in 0..r.range(1, 3) {
        let line = hand_built(r);
        let res = exec_line(sess, &line, out);
        out.count("hand_built");
        if let Some(raw) = res.get(0).and_then(|l| l.split(' ').nth(2)) {
            let raw = raw.to_string();
            exec_line(sess, &format!("codec.change {}", raw), out);
            exec_line(sess, &format!("codec.reencode {} lib", raw), out);
            exec_line(sess, &format!("codec.wf {}", raw), out);
            out.count("wf_checked_hand_built");
            if let Ok(mut c) = Change::from_bytes(unhx(&raw)) {
                let comp = c.bytes().to_vec();
                if comp != c.raw_bytes() { exec_line(sess, &format!("codec.compressed {} {}", raw, hx(&comp)), out); }
                changes.push(c);
            }
        }
    }
    // 3. the malformed stream: structure-aware mutations with the checksum recomputed
    let nmut = r.range(8, 20);
    for _ in 0..nmut {
        if changes.is_empty() { break; }
        let base = &changes[r.below(changes.len() as u64) as usize];
        let raw = base.raw_bytes().to_vec();
        let mut classes: Vec<String> = vec![];
        let mutated: Vec<u8> = if r.chance(1, 12) {
            // plain damage: bit flip / truncation / trailing bytes, checksum NOT recomputed
            let mut m = raw.clone();
            match r.below(3) {
                0 => { let b = r.below(m.len() as u64 * 8) as usize; m[b / 8] ^= 1 << (b % 8); out.count("mut_bitflip"); }
                1 => { let k = r.below(m.len() as u64) as usize; m.truncate(k); out.count("mut_truncate"); }
                _ => { m.extend({ let n__ = r.range(1, 3) as usize; r.bytes(n__) }); out.count("mut_trailing"); }
            }
            m
        } else {
            match parse_parts(&raw) {
                None => continue,
                Some(mut p) => {
                    let k = if r.chance(1, 5) { 2 } else { 1 };
                    for _ in 0..k { let class = mutate(r, &mut p); out.count(&format!("mut_{}", class)); classes.push(class); }
                    p.chunk()
                }
            }
        };
        let line = format!("codec.change {}", hx(&mutated));
        let res = exec_line(sess, &line, out);
        let first = res.get(0).cloned().unwrap_or_default();
        if classes.len() == 1 && classes[0].starts_with("utf8_") && classes[0] != "utf8_none" && !classes[0].ends_with("stillvalid") {
            let place = classes[0].split('_').nth(1).unwrap_or("");
            out.count(&format!("utf8_{}_{}", place, if first.starts_with("ok") { "accepted" } else if first == "panic" { "panic" } else { "rejected" }));
        }
        if first.starts_with("ok") {
            out.count("mutant_accepted");
            exec_line(sess, &format!("codec.reencode {} foreign", hx(&mutated)), out);
            exec_line(sess, &format!("codec.apply {}", hx(&mutated)), out);
        } else if first == "panic" { out.count("mutant_panicked"); } else { out.count("mutant_rejected"); }
    }
    // 3b. invalid UTF-8 tails in the strings of a document chunk (C39 on the document load path)
    if r.chance(1, 3) { exec_line(sess, &format!("codec.docstr {}", r.next() % 1_000_000), out); out.count("docstr_probes"); }
    // 4a. a large bundle whose actors interleave causally (A1 B1 C1 A2 …): more changes than any small-input
    //     special case of the (actor, seq) bookkeeping of the bundle reader covers
    if r.chance(1, 8) {
        out.count("bundles_large_interleaved");
        let nact = r.range(2, 4) as usize;
        let actors: Vec<ActorId> = (0..nact).map(|i| ActorId::from(vec![0x40 + 0x10 * i as u8, r.next() as u8])).collect();
        let mut d = AutoCommit::new_with_encoding(ENC).with_actor(actors[0].clone());
        let n = r.range(21, 90) as usize;
        for k in 0..n {
            let i = if r.chance(1, 4) { r.below(nact as u64) as usize } else { k % nact };
            d.set_actor(actors[i].clone());
            let key = format!("k{}", r.below(6));
            match r.below(4) {
                0 => { let _ = d.put(automerge::ROOT, key, k as i64); }
                1 => { let _ = d.put(automerge::ROOT, key, format!("v{}", k)); }
                2 => { let _ = d.delete(automerge::ROOT, key); let _ = d.put(automerge::ROOT, "z", k as i64); }
                _ => { if let Ok(l) = d.put_object(automerge::ROOT, key, automerge::ObjType::List) { let _ = d.insert(&l, 0, k as i64); let _ = d.insert(&l, 1, "x"); } }
            }
            d.commit_with(automerge::transaction::CommitOptions::default().with_time(0));
        }
        let cs = d.get_changes(&[]);
        let raws: Vec<String> = cs.iter().map(|c| hx(c.raw_bytes())).collect();
        let all: Vec<String> = (0..cs.len()).map(|i| i.to_string()).collect();
        exec_line(sess, &format!("codec.bundle {} {}", raws.join(","), all.join(",")), out);
        let some: Vec<String> = (0..cs.len()).filter(|_| r.chance(3, 4)).map(|i| i.to_string()).collect();
        if !some.is_empty() { exec_line(sess, &format!("codec.bundle {} {}", raws.join(","), some.join(",")), out); }
    }
    // 4. bundles of random subsets
    let lib: Vec<&Change> = changes[..n_lib].iter().filter(|c| c.deps().iter().all(|d| changes.iter().any(|x| x.hash() == *d))).collect();
    if !lib.is_empty() && lib.len() <= 40 {
        // keep only a causally closed prefix (hand-built changes with random deps are excluded above)
        let mut probe = AutoCommit::new_with_encoding(ENC).with_actor(ActorId::from(vec![0xee]));
        let mut good: Vec<&Change> = vec![];
        for c in &lib { if probe.apply_changes([(*c).clone()]).is_ok() && probe.get_missing_deps(&[]).is_empty() { good.push(c); } else { break; } }
        if !good.is_empty() {
            for _ in 0..2 {
                let idx: Vec<String> = (0..good.len()).filter(|_| r.chance(1, 2)).map(|i| i.to_string()).collect();
                let raws: Vec<String> = good.iter().map(|c| hx(c.raw_bytes())).collect();
                exec_line(sess, &format!("codec.bundle {} {}", raws.join(","), if idx.is_empty() { "-".to_string() } else { idx.join(",") }), out);
                out.count("bundles");
            }
        }
    }
}
