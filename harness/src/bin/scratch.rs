use automerge::{transaction::Transactable, AutoCommit, ObjType, ReadDoc, ScalarValue, ROOT};
fn main() {
    let mut d = AutoCommit::new();
    let l = d.put_object(ROOT, "l", ObjType::List).unwrap();
    d.insert(&l, 0, ScalarValue::counter(1)).unwrap();
    d.increment(&l, 0, 2).unwrap();
    d.insert(&l, 1, "x").unwrap();
    d.commit();
    let bytes = d.save();
    let r = std::panic::catch_unwind(|| AutoCommit::load(&bytes).map(|_| ()));
    println!("load: {:?}", r.map(|x| x.is_ok()));
    let r = std::panic::catch_unwind(std::panic::AssertUnwindSafe(|| d.get_changes(&[]).len()));
    println!("get_changes: {:?}", r);
    println!("len {}", d.length(&l));
}
