//! amharness: drives the real automerge / hexane code for the correspondence check.
//!
//! Line protocol (shared with the Lean driver `amdriver`):
//!   `# case <n> <engine> seed=<s>`  case delimiter (copied by both sides)
//!   `> <engine.cmd> args…`          an input; both sides execute it
//!   `< result…`                     what a side returned for the preceding `>` line
//!   `! <property> message`          direct-oracle failure seen on the implementation alone
//!
//! `amharness run <engine> --seed S --cases N`   generate inputs and execute them on the real code
//! `amharness exec`                              re-execute the `>` lines read from stdin
mod engines;
mod rng;

use std::io::{BufRead, Write};
use std::panic::{catch_unwind, AssertUnwindSafe};

pub static LAST_PANIC_LOC: std::sync::Mutex<String> = std::sync::Mutex::new(String::new());

pub struct Out {
    pub w: Box<dyn Write>,
    pub stats: std::collections::BTreeMap<String, u64>,
}

impl Out {
    pub fn line(&mut self, s: &str) {
        writeln!(self.w, "{}", s).unwrap();
    }
    pub fn count(&mut self, key: &str) {
        *self.stats.entry(key.to_string()).or_insert(0) += 1;
    }
    pub fn add(&mut self, key: &str, n: u64) {
        *self.stats.entry(key.to_string()).or_insert(0) += n;
    }
}

/// Execution state shared by the lines of one case (stateful engines keep replicas here).
#[derive(Default)]
pub struct Session {
    pub crdt: engines::crdt::CrdtSession,
    #[cfg(feature = "e_capi")]
    pub capi: engines::capi::CapiSession,
    #[cfg(feature = "e_sync")]
    pub sync: engines::sync::SyncSession,
}

/// Execute one input line on the real code; every engine routes through here so that generated
/// cases and replayed cases take exactly the same path.
pub fn exec_line(sess: &mut Session, line: &str, out: &mut Out) -> Vec<String> {
    out.line(&format!("> {}", line));
    // the input line reaches the pipe before it is executed: if the implementation aborts the whole
    // process (allocation failure, stack overflow, abort()), the trace ends with the input that did it
    let _ = out.w.flush();
    let toks: Vec<&str> = line.split(' ').collect();
    let res = catch_unwind(AssertUnwindSafe(|| engines::dispatch(sess, &toks)));
    match res {
        Ok(lines) => {
            for l in &lines {
                if l.starts_with("! ") {
                    out.count("oracle_failures");
                    out.line(l);
                } else if l.starts_with("#") {
                    out.line(l);
                } else {
                    out.line(&format!("< {}", l));
                }
            }
            lines
        }
        Err(e) => {
            let msg = if let Some(s) = e.downcast_ref::<String>() {
                s.clone()
            } else if let Some(s) = e.downcast_ref::<&str>() {
                s.to_string()
            } else {
                "?".to_string()
            };
            out.count("impl_panics");
            let msg = msg.replace('\n', " ");
            out.line("< panic");
            let loc = std::mem::take(&mut *LAST_PANIC_LOC.lock().unwrap());
            out.line(&format!("#panic-message {} [at {}]", msg, loc));
            vec!["panic".to_string()]
        }
    }
}

fn main() {
    if std::env::var("AMH_VERBOSE").is_err() {
        // silent hook that remembers where the panic happened (reported in `#panic-message`)
        std::panic::set_hook(Box::new(|info| {
            let loc = info.location().map(|l| {
                let f = l.file();
                let f = f.rsplit_once("/rust/").map(|x| x.1).unwrap_or(f);
                format!("{}:{}", f, l.line())
            }).unwrap_or_default();
            *LAST_PANIC_LOC.lock().unwrap() = loc;
        }));
    }
    let args: Vec<String> = std::env::args().collect();
    let stdout = std::io::stdout();
    let mut out = Out {
        w: Box::new(std::io::BufWriter::new(stdout)),
        stats: Default::default(),
    };
    match args.get(1).map(|s| s.as_str()) {
        Some("run") => {
            let engine = args.get(2).expect("engine");
            let mut seed = 1u64;
            let mut cases = 100u64;
            let mut opts = std::collections::BTreeMap::new();
            let mut i = 3;
            while i < args.len() {
                match args[i].as_str() {
                    "--seed" => { seed = args[i + 1].parse().unwrap(); i += 2; }
                    "--cases" => { cases = args[i + 1].parse().unwrap(); i += 2; }
                    k if k.starts_with("--") => { opts.insert(k[2..].to_string(), args[i + 1].clone()); i += 2; }
                    _ => panic!("bad arg"),
                }
            }
            for c in 0..cases {
                let case_seed = rng::mix(seed, c);
                out.line(&format!("# case {} {} seed={}", c, engine, case_seed));
                let mut sess = Session::default();
                let mut r = rng::Rng::new(case_seed);
                let res = catch_unwind(AssertUnwindSafe(|| engines::generate(engine, &mut r, &opts, &mut sess, &mut out)));
                if res.is_err() {
                    // the generator itself drives real code (to build inputs); a panic there ends the case
                    out.count("generator_panics");
                    out.line("#generator-panic");
                }
            }
        }
        Some("exec") => {
            let stdin = std::io::stdin();
            let mut sess = Session::default();
            for line in stdin.lock().lines() {
                let line = line.unwrap();
                if let Some(rest) = line.strip_prefix("> ") {
                    exec_line(&mut sess, rest, &mut out);
                } else if line.starts_with("# case") {
                    sess = Session::default();
                    out.line(&line);
                }
            }
        }
        _ => {
            eprintln!("usage: amharness run <engine> --seed S --cases N | amharness exec");
            std::process::exit(2);
        }
    }
    let stats: Vec<String> = out.stats.iter().map(|(k, v)| format!("{}={}", k, v)).collect();
    out.line(&format!("#stats {}", stats.join(" ")));
    out.w.flush().unwrap();
}
