//! SplitMix64: every random choice of a case derives from one state, so (seed, case) replays.
pub struct Rng(pub u64);

pub fn mix(seed: u64, k: u64) -> u64 {
    let mut r = Rng(seed ^ k.wrapping_mul(0x9E3779B97F4A7C15));
    r.next()
}

impl Rng {
    pub fn new(seed: u64) -> Self { Rng(seed) }
    pub fn next(&mut self) -> u64 {
        self.0 = self.0.wrapping_add(0x9E3779B97F4A7C15);
        let mut z = self.0;
        z = (z ^ (z >> 30)).wrapping_mul(0xBF58476D1CE4E5B9);
        z = (z ^ (z >> 27)).wrapping_mul(0x94D049BB133111EB);
        z ^ (z >> 31)
    }
    /// uniform in 0..n (n > 0)
    pub fn below(&mut self, n: u64) -> u64 { self.next() % n }
    pub fn range(&mut self, lo: u64, hi: u64) -> u64 { lo + self.below(hi - lo + 1) }
    pub fn chance(&mut self, num: u64, den: u64) -> bool { self.below(den) < num }
    pub fn pick<'a, T>(&mut self, xs: &'a [T]) -> &'a T { &xs[self.below(xs.len() as u64) as usize] }
    pub fn bytes(&mut self, n: usize) -> Vec<u8> { (0..n).map(|_| self.next() as u8).collect() }
    /// an integer biased to boundary values of LEB128 / u32 / u64
    pub fn edgy_u64(&mut self) -> u64 {
        match self.below(8) {
            0 => self.below(4),
            1 => self.below(300),
            2 => { let k = self.range(1, 9); (1u64 << (7 * k)).wrapping_add(self.below(3)).wrapping_sub(1) }
            3 => (1u64 << 32).wrapping_add(self.below(3)).wrapping_sub(1),
            4 => u64::MAX - self.below(2),
            5 => 1u64 << 63,
            6 => self.next() >> self.below(64),
            _ => self.next(),
        }
    }
}
